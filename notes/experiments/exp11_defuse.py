"""Throw-away experiment: module globals initialised to None that are later called or
dereferenced, and where they get bound (C03.a candidates)."""
import ast, os
for dp, dn, fn in os.walk("/repo"):
    if not ("/passlib" in dp or "/libpass" in dp) or "/tests" in dp: continue
    for f in sorted(fn):
        if not f.endswith(".py") or f == "_gen_files.py": continue
        p = os.path.join(dp, f); t = ast.parse(open(p).read())
        none_globals = set()
        for st in t.body:
            if isinstance(st, ast.Assign) and isinstance(st.value, ast.Constant) and st.value.value is None:
                for tg in st.targets:
                    for n in ast.walk(tg):
                        if isinstance(n, ast.Name): none_globals.add(n.id)
        if not none_globals: continue
        used = {}; bound = {}; declared = {}
        for fnode in ast.walk(t):
            if isinstance(fnode, (ast.FunctionDef,)):
                g = {n for st in ast.walk(fnode) if isinstance(st, ast.Global) for n in st.names}
                for n in g & none_globals:
                    declared.setdefault(n, []).append(fnode.name)
                    for st in ast.walk(fnode):
                        if isinstance(st, (ast.Import, ast.ImportFrom)):
                            for a in st.names:
                                if (a.asname or a.name) == n: bound.setdefault(n, []).append(fnode.name + ":import")
                        if isinstance(st, ast.Name) and st.id == n and isinstance(st.ctx, ast.Store):
                            bound.setdefault(n, []).append(fnode.name + ":assign")
        for n in ast.walk(t):
            if isinstance(n, ast.Call) and isinstance(n.func, ast.Name) and n.func.id in none_globals:
                used.setdefault(n.func.id, set()).add("call")
            if isinstance(n, ast.Attribute) and isinstance(n.value, ast.Name) and n.value.id in none_globals:
                used.setdefault(n.value.id, set()).add("deref")
            if isinstance(n, ast.Subscript) and isinstance(n.value, ast.Name) and n.value.id in none_globals:
                used.setdefault(n.value.id, set()).add("index")
        # module-level rebinding (try/except import, if/else)
        for st in ast.walk(t):
            pass
        for g in sorted(none_globals):
            if g in used:
                print(f"{p[6:]:45} {g:18} used={sorted(used[g])} declared_in={declared.get(g)} bound_in={bound.get(g)}")
