"""Expression normalisation.

* ``Poly``: integer expressions as polynomials over atoms -- decides algebraic equality of
  ``+ - *`` / constant ``<<`` / ``**`` expressions independent of spelling (``count << 3`` ==
  ``8 * count``; ``x = x >> 8`` == ``x >>= 8`` after canon).
* ``canon(expr)``: canonical string of an arbitrary expression: constants folded, commutative
  operands sorted, names substituted through an environment of single-definition temps.
* ``single_defs(func)``: locals assigned exactly once (candidates for inlining).
"""
from __future__ import annotations

import ast
from fractions import Fraction


class Poly:
    """sum of coef * prod(atom**pow); atoms are canonical strings"""

    def __init__(self, terms=None):
        self.t = {k: v for k, v in (terms or {}).items() if v != 0}

    @staticmethod
    def const(c):
        return Poly({(): Fraction(c)})

    @staticmethod
    def atom(a):
        return Poly({((a, 1),): Fraction(1)})

    def __add__(self, o):
        t = dict(self.t)
        for k, v in o.t.items():
            t[k] = t.get(k, 0) + v
        return Poly(t)

    def __neg__(self):
        return Poly({k: -v for k, v in self.t.items()})

    def __sub__(self, o):
        return self + (-o)

    def __mul__(self, o):
        t = {}
        for k1, v1 in self.t.items():
            for k2, v2 in o.t.items():
                d = dict(k1)
                for a, p in k2:
                    d[a] = d.get(a, 0) + p
                k = tuple(sorted((a, p) for a, p in d.items() if p))
                t[k] = t.get(k, 0) + v1 * v2
        return Poly(t)

    def is_const(self):
        return all(k == () for k in self.t)

    def value(self):
        if not self.is_const():
            return None
        v = self.t.get((), Fraction(0))
        return int(v) if v.denominator == 1 else float(v)

    def __eq__(self, o):
        return isinstance(o, Poly) and self.t == o.t

    def __hash__(self):
        return hash(tuple(sorted(self.t.items())))

    def key(self):
        parts = []
        for k in sorted(self.t):
            c = self.t[k]
            cs = str(int(c)) if c.denominator == 1 else str(c)
            mono = "*".join(a if p == 1 else f"{a}^{p}" for a, p in k)
            parts.append(cs if not mono else (mono if c == 1 else f"{cs}*{mono}"))
        return " + ".join(parts) if parts else "0"

    __repr__ = key


class Normalizer:
    """env: name -> ast expr (inlined temps); const: callback(ast expr) -> python value or None"""

    def __init__(self, env=None, const=None, rename=None):
        self.env = env or {}
        self.const = const
        self.rename = rename or {}
        self._stack = set()

    # ---- polynomial view
    def poly(self, e) -> Poly:
        if isinstance(e, ast.Constant) and isinstance(e.value, (int, float)) and not isinstance(e.value, bool):
            return Poly.const(Fraction(e.value))
        if isinstance(e, ast.Name):
            if e.id in self.env and e.id not in self._stack:
                self._stack.add(e.id)
                try:
                    return self.poly(self.env[e.id])
                finally:
                    self._stack.discard(e.id)
            if self.const:
                v = self.const(e)
                if isinstance(v, int) and not isinstance(v, bool):
                    return Poly.const(v)
            return Poly.atom(self.rename.get(e.id, e.id))
        if isinstance(e, ast.Attribute) and self.const:
            v = self.const(e)
            if isinstance(v, int) and not isinstance(v, bool):
                return Poly.const(v)
        if isinstance(e, ast.UnaryOp) and isinstance(e.op, ast.USub):
            return -self.poly(e.operand)
        if isinstance(e, ast.UnaryOp) and isinstance(e.op, ast.UAdd):
            return self.poly(e.operand)
        if isinstance(e, ast.BinOp):
            if isinstance(e.op, ast.Add):
                return self.poly(e.left) + self.poly(e.right)
            if isinstance(e.op, ast.Sub):
                return self.poly(e.left) - self.poly(e.right)
            if isinstance(e.op, ast.Mult):
                return self.poly(e.left) * self.poly(e.right)
            if isinstance(e.op, ast.LShift):
                k = self.poly(e.right).value()
                if isinstance(k, int) and 0 <= k < 4096:
                    return self.poly(e.left) * Poly.const(1 << k)
            if isinstance(e.op, ast.Pow):
                b, k = self.poly(e.left), self.poly(e.right)
                kv = k.value()
                if isinstance(kv, int) and 0 <= kv <= 64:
                    r = Poly.const(1)
                    for _ in range(kv):
                        r = r * b
                    return r
                bv = b.value()
                if bv is not None and kv is not None:
                    try:
                        return Poly.const(Fraction(bv) ** kv)
                    except Exception:
                        pass
                return Poly.atom(f"pow({b.key()},{k.key()})")
            if isinstance(e.op, (ast.RShift, ast.FloorDiv, ast.Mod, ast.BitAnd, ast.BitOr, ast.BitXor, ast.Div)):
                a, b = self.poly(e.left), self.poly(e.right)
                av, bv = a.value(), b.value()
                if isinstance(av, int) and isinstance(bv, int):
                    try:
                        import operator as op
                        f = {ast.RShift: op.rshift, ast.FloorDiv: op.floordiv, ast.Mod: op.mod,
                             ast.BitAnd: op.and_, ast.BitOr: op.or_, ast.BitXor: op.xor}.get(type(e.op))
                        if f:
                            return Poly.const(f(av, bv))
                    except Exception:
                        pass
                if isinstance(e.op, ast.RShift) and isinstance(bv, int) and 0 <= bv < 4096:
                    return Poly.atom(f"floordiv({a.key()},{1 << bv})")
                name = {ast.RShift: "shr", ast.FloorDiv: "floordiv", ast.Mod: "mod", ast.BitAnd: "and",
                        ast.BitOr: "or", ast.BitXor: "xor", ast.Div: "div"}[type(e.op)]
                ks = [a.key(), b.key()]
                if name in ("and", "or", "xor"):
                    ks.sort()
                return Poly.atom(f"{name}({ks[0]},{ks[1]})")
        return Poly.atom(self.canon(e, _nopoly=True))

    # ---- generic canonical string
    def canon(self, e, _nopoly=False) -> str:
        if e is None:
            return "None"
        if isinstance(e, ast.Constant):
            return repr(e.value)
        if isinstance(e, ast.Name):
            if e.id in self.env and e.id not in self._stack:
                self._stack.add(e.id)
                try:
                    return self.canon(self.env[e.id])
                finally:
                    self._stack.discard(e.id)
            if self.const:
                v = self.const(e)
                if isinstance(v, (int, str, bytes)) and not isinstance(v, bool):
                    return repr(v)
            return self.rename.get(e.id, e.id)
        if isinstance(e, (ast.BinOp, ast.UnaryOp)) and not _nopoly:
            if isinstance(e, ast.BinOp) and isinstance(e.op, ast.Add):
                # string / bytes concatenation is not commutative: keep order when any operand is non-numeric
                if self._maybe_seq(e):
                    return "(" + " ++ ".join(self.canon(x) for x in _flatten_add(e)) + ")"
            return self.poly(e).key()
        if isinstance(e, ast.BinOp):
            return f"({self.canon(e.left)} {type(e.op).__name__} {self.canon(e.right)})"
        if isinstance(e, ast.UnaryOp):
            return f"({type(e.op).__name__} {self.canon(e.operand)})"
        if isinstance(e, ast.Attribute):
            if self.const:
                v = self.const(e)
                if isinstance(v, (int, str, bytes)) and not isinstance(v, bool):
                    return repr(v)
            return f"{self.canon(e.value)}.{e.attr}"
        if isinstance(e, ast.Call):
            args = [self.canon(a) for a in e.args]
            kws = sorted(f"{k.arg}={self.canon(k.value)}" for k in e.keywords)
            return f"{self.canon(e.func)}({', '.join(args + kws)})"
        if isinstance(e, ast.Subscript):
            return f"{self.canon(e.value)}[{self.canon(e.slice)}]"
        if isinstance(e, ast.Slice):
            return f"{self.canon(e.lower) if e.lower else ''}:{self.canon(e.upper) if e.upper else ''}" + (
                f":{self.canon(e.step)}" if e.step else "")
        if isinstance(e, ast.Compare):
            parts = [self.canon(e.left)]
            for op, c in zip(e.ops, e.comparators):
                parts.append(type(op).__name__)
                parts.append(self.canon(c))
            return "(" + " ".join(parts) + ")"
        if isinstance(e, ast.BoolOp):
            vals = [self.canon(v) for v in e.values]
            return "(" + f" {type(e.op).__name__} ".join(vals) + ")"
        if isinstance(e, (ast.Tuple, ast.List)):
            return "[" + ", ".join(self.canon(x) for x in e.elts) + "]"
        if isinstance(e, ast.IfExp):
            return f"({self.canon(e.body)} if {self.canon(e.test)} else {self.canon(e.orelse)})"
        if isinstance(e, ast.Starred):
            return "*" + self.canon(e.value)
        try:
            return ast.unparse(e)
        except Exception:
            return type(e).__name__

    def _maybe_seq(self, e):
        for x in _flatten_add(e):
            if isinstance(x, ast.Constant) and isinstance(x.value, (str, bytes)):
                return True
            if isinstance(x, (ast.JoinedStr, ast.List, ast.Tuple)):
                return True
            if isinstance(x, ast.Call) and isinstance(x.func, ast.Attribute) and x.func.attr in (
                    "encode", "decode", "digest", "join", "hexdigest", "upper", "lower"):
                return True
            if isinstance(x, ast.Subscript) and isinstance(x.slice, ast.Slice):
                return True
        return False


def _flatten_add(e):
    if isinstance(e, ast.BinOp) and isinstance(e.op, ast.Add):
        return _flatten_add(e.left) + _flatten_add(e.right)
    return [e]


def flatten_add(e):
    return _flatten_add(e)


def single_defs(func, include_params=False):
    """locals of func assigned exactly once by a plain `name = expr` (not in a loop, not augmented)"""
    counts, vals = {}, {}
    from .model import walk_no_nested
    loops = []
    for n in walk_no_nested(func):
        if isinstance(n, (ast.For, ast.While)):
            loops.append(n)
    in_loop = set()
    for lp in loops:
        for n in ast.walk(lp):
            if isinstance(n, ast.Name) and isinstance(n.ctx, ast.Store):
                in_loop.add(n.id)
    for n in walk_no_nested(func):
        if isinstance(n, ast.Assign):
            for t in n.targets:
                for nm in ast.walk(t):
                    if isinstance(nm, ast.Name) and isinstance(nm.ctx, ast.Store):
                        counts[nm.id] = counts.get(nm.id, 0) + 1
                if isinstance(t, ast.Name):
                    vals[t.id] = n.value
        elif isinstance(n, (ast.AugAssign, ast.AnnAssign)):
            t = n.target
            if isinstance(t, ast.Name):
                counts[t.id] = counts.get(t.id, 0) + (2 if isinstance(n, ast.AugAssign) else 1)
                if isinstance(n, ast.AnnAssign) and n.value is not None:
                    vals[t.id] = n.value
        elif isinstance(n, (ast.For, ast.comprehension)):
            for nm in ast.walk(n.target):
                if isinstance(nm, ast.Name):
                    counts[nm.id] = counts.get(nm.id, 0) + 2
        elif isinstance(n, (ast.With,)):
            for it in n.items:
                if it.optional_vars is not None:
                    for nm in ast.walk(it.optional_vars):
                        if isinstance(nm, ast.Name):
                            counts[nm.id] = counts.get(nm.id, 0) + 2
        elif isinstance(n, ast.ExceptHandler) and n.name:
            counts[n.name] = counts.get(n.name, 0) + 2
        elif isinstance(n, (ast.Import, ast.ImportFrom)):
            for a in n.names:
                nm = a.asname or a.name.split(".")[0]
                counts[nm] = counts.get(nm, 0) + 2
    pnames = set()
    if hasattr(func, "args"):
        a = func.args
        pnames = {x.arg for x in a.posonlyargs + a.args + a.kwonlyargs}
        if a.vararg:
            pnames.add(a.vararg.arg)
        if a.kwarg:
            pnames.add(a.kwarg.arg)
    return {k: v for k, v in vals.items() if counts.get(k) == 1 and k not in in_loop and k not in pnames}
