"""passlib.totp -- TOTP / RFC6238 / Google Authenticator utilities."""

# core
import base64
import calendar
import json
import logging
import math
import re
import struct
import time as _time
from urllib.parse import parse_qsl, quote, unquote, urlparse
from warnings import warn

# site
try:
    # TOTP encrypted keys only supported if cryptography (https://cryptography.io) is installed
    import cryptography.hazmat.primitives.ciphers.algorithms
    import cryptography.hazmat.primitives.ciphers.modes
    from cryptography.hazmat.backends import default_backend as _cg_default_backend
    from cryptography.hazmat.primitives import ciphers as _cg_ciphers

    del cryptography
except ImportError:
    logging.debug("can't import 'cryptography' package, totp encryption disabled")
    _cg_ciphers = _cg_default_backend = None  # type: ignore[assignment]
# pkg
from passlib import exc
from passlib.crypto.digest import compile_hmac, lookup_hash, pbkdf2_hmac
from passlib.exc import (
    InvalidTokenError,
    MalformedTokenError,
    TokenError,
    UsedTokenError,
)
from passlib.utils import (
    SequenceMixin,
    consteq,
    getrandbytes,
    getrandstr,
    rng,
    to_bytes,
    to_unicode,
)
from passlib.utils.binary import BASE64_CHARS, b32decode, b32encode
from passlib.utils.compat import bascii_to_str, numeric_types
from passlib.utils.decor import hybrid_method, memoized_property

# local
__all__ = [
    # frontend classes
    "AppWallet",
    "TOTP",
    # errors (defined in passlib.exc, but exposed here for convenience)
    "TokenError",
    "MalformedTokenError",
    "InvalidTokenError",
    "UsedTokenError",
    # internal helper classes
    "TotpToken",
    "TotpMatch",
]


# -----------------------------------------------------------------------------
# token parsing / rendering helpers
# -----------------------------------------------------------------------------

#: regex used to clean whitespace from tokens & keys
_clean_re = re.compile(r"\s|[-=]", re.UNICODE)

_chunk_sizes = [4, 6, 5]


def _get_group_size(klen):
    """
    helper for group_string() --
    calculates optimal size of group for given string size.
    """
    # look for exact divisor
    for size in _chunk_sizes:
        if not klen % size:
            return size
    # fallback to divisor with largest remainder
    # (so chunks are as close to even as possible)
    best = _chunk_sizes[0]
    rem = 0
    for size in _chunk_sizes:
        if klen % size > rem:
            best = size
            rem = klen % size
    return best


def group_string(value, sep="-"):
    """
    reformat string into (roughly) evenly-sized groups, separated by **sep**.
    useful for making tokens & keys easier to read by humans.
    """
    klen = len(value)
    size = _get_group_size(klen)
    return sep.join(value[o : o + size] for o in range(0, klen, size))


# -----------------------------------------------------------------------------
# encoding helpers
# -----------------------------------------------------------------------------


def _decode_bytes(key, format):
    """
    internal TOTP() helper --
    decodes key according to specified format.
    """
    if format == "raw":
        if not isinstance(key, bytes):
            raise exc.ExpectedTypeError(key, "bytes", "key")
        return key
    # for encoded data, key must be either unicode or ascii-encoded bytes,
    # and must contain a hex or base32 string.
    key = to_unicode(key, param="key")
    key = _clean_re.sub("", key).encode("utf-8")  # strip whitespace & hypens
    if format == "hex" or format == "base16":
        return base64.b16decode(key.upper())
    if format == "base32":
        return b32decode(key)
    # XXX: add base64 support?
    raise ValueError(f"unknown byte-encoding format: {format!r}")


#: flag for detecting if encrypted totp support is present
AES_SUPPORT = bool(_cg_ciphers)

#: regex for validating secret tags
_tag_re = re.compile("(?i)^[a-z0-9][a-z0-9_.-]*$")


class AppWallet:
    """
    This class stores application-wide secrets that can be used
    to encrypt & decrypt TOTP keys for storage.
    It's mostly an internal detail, applications usually just need
    to pass ``secrets`` or ``secrets_path`` to :meth:`TOTP.using`.

    .. seealso::

        :ref:`totp-storing-instances` for more details on this workflow.

    Arguments
    =========
    :param secrets:
        Dict of application secrets to use when encrypting/decrypting
        stored TOTP keys.  This should include a secret to use when encrypting
        new keys, but may contain additional older secrets to decrypt
        existing stored keys.

        The dict should map tags -> secrets, so that each secret is identified
        by a unique tag.  This tag will be stored along with the encrypted
        key in order to determine which secret should be used for decryption.
        Tag should be string that starts with regex range ``[a-z0-9]``,
        and the remaining characters must be in ``[a-z0-9_.-]``.

        It is recommended to use something like a incremental counter
        ("1", "2", ...), an ISO date ("2016-01-01", "2016-05-16", ...),
        or a timestamp ("19803495", "19813495", ...) when assigning tags.

        This mapping be provided in three formats:

        * A python dict mapping tag -> secret
        * A JSON-formatted string containing the dict
        * A multiline string with the format ``"tag: value\\ntag: value\\n..."``

        (This last format is mainly useful when loading from a text file via **secrets_path**)

        .. seealso:: :func:`generate_secret` to create a secret with sufficient entropy

    :param secrets_path:
        Alternately, callers can specify a separate file where the
        application-wide secrets are stored, using either of the string
        formats described in **secrets**.

    :param default_tag:
        Specifies which tag in **secrets** should be used as the default
        for encrypting new keys. If omitted, the tags will be sorted,
        and the largest tag used as the default.

        if all tags are numeric, they will be sorted numerically;
        otherwise they will be sorted alphabetically.
        this permits tags to be assigned numerically,
        or e.g. using ``YYYY-MM-DD`` dates.

    :param encrypt_cost:
        Optional time-cost factor for key encryption.
        This value corresponds to log2() of the number of PBKDF2
        rounds used.

    .. warning::

        The application secret(s) should be stored in a secure location by
        your application, and each secret should contain a large amount
        of entropy (to prevent brute-force attacks if the encrypted keys
        are leaked).

        :func:`generate_secret` is provided as a convenience helper
        to generate a new application secret of suitable size.

        Best practice is to load these values from a file via **secrets_path**,
        and then have your application give up permission to read this file
        once it's running.

    Public Methods
    ==============
    .. autoattribute:: has_secrets
    .. autoattribute:: default_tag

    Semi-Private Methods
    ====================
    The following methods are used internally by the :class:`TOTP`
    class in order to encrypt & decrypt keys using the provided application
    secrets.  They will generally not be publically useful, and may have their
    API changed periodically.

    .. automethod:: get_secret
    .. automethod:: encrypt_key
    .. automethod:: decrypt_key
    """

    #: default salt size for encrypt_key() output
    salt_size = 12

    #: default cost (log2 of pbkdf2 rounds) for encrypt_key() output
    #: NOTE: this is relatively low, since the majority of the security
    #: relies on a high entropy secret to pass to AES.
    encrypt_cost = 14

    #: map of secret tag -> secret bytes
    _secrets = None

    #: tag for default secret
    default_tag = None

    def __init__(
        self, secrets=None, default_tag=None, encrypt_cost=None, secrets_path=None
    ):
        # TODO: allow a lot more things to be customized from here,
        #       e.g. setting default TOTP constructor options.

        #
        # init cost
        #
        if encrypt_cost is not None:
            if isinstance(encrypt_cost, str):
                encrypt_cost = int(encrypt_cost)
            assert encrypt_cost >= 0
            self.encrypt_cost = encrypt_cost

        #
        # init secrets map
        #

        # load secrets from file (if needed)
        if secrets_path is not None:
            if secrets is not None:
                raise TypeError("'secrets' and 'secrets_path' are mutually exclusive")
            with open(secrets_path) as f:
                secrets = f.read()

        # parse & store secrets
        secrets = self._secrets = self._parse_secrets(secrets)

        #
        # init default tag/secret
        #
        if secrets:
            if default_tag is not None:
                # verify that tag is present in map
                self.get_secret(default_tag)
            elif all(tag.isdigit() for tag in secrets):
                default_tag = max(secrets, key=int)
            else:
                default_tag = max(secrets)
            self.default_tag = default_tag

    def _parse_secrets(self, source):
        """
        parse 'secrets' parameter

        :returns:
            Dict[tag:str, secret:bytes]
        """
        # parse string formats
        # to make this easy to pass in configuration from a separate file,
        # 'secrets' can be string using two formats -- json & "tag:value\n"
        check_type = True
        if isinstance(source, str):
            if source.lstrip().startswith(("[", "{")):
                # json list / dict
                source = json.loads(source)
            elif "\n" in source and ":" in source:
                # multiline string containing series of "tag: value\n" rows;
                # empty and "#\n" rows are ignored
                def iter_pairs(source):
                    for line in source.splitlines():
                        line = line.strip()
                        if line and not line.startswith("#"):
                            tag, secret = line.split(":", 1)
                            yield tag.strip(), secret.strip()

                source = iter_pairs(source)
                check_type = False
            else:
                raise ValueError("unrecognized secrets string format")

        # ensure we have iterable of (tag, value) pairs
        if source is None:
            return {}
        if isinstance(source, dict):
            source = source.items()
        # XXX: could support iterable of (tag,value) pairs, but not yet needed...
        # elif check_type and (isinstance(source, str) or not isinstance(source, Iterable)):
        elif check_type:
            raise TypeError("'secrets' must be mapping, or list of items")

        # parse into final dict, normalizing contents
        return dict(self._parse_secret_pair(tag, value) for tag, value in source)

    def _parse_secret_pair(self, tag, value):
        if isinstance(tag, str):
            pass
        elif isinstance(tag, int):
            tag = str(tag)
        else:
            raise TypeError(f"tag must be string: {tag!r}")
        if not _tag_re.match(tag):
            raise ValueError(f"tag contains invalid characters: {tag!r}")
        if not isinstance(value, bytes):
            value = to_bytes(value, param=f"secret {tag!r}")
        if not value:
            raise ValueError(f"tag contains empty secret: {tag!r}")
        return tag, value

    @property
    def has_secrets(self):
        """whether at least one application secret is present"""
        return self.default_tag is not None

    def get_secret(self, tag):
        """
        resolve a secret tag to the secret (as bytes).
        throws a KeyError if not found.
        """
        secrets = self._secrets
        if not secrets:
            raise KeyError("no application secrets configured")
        try:
            return secrets[tag]
        except KeyError:
            raise KeyError(f"unknown secret tag: {tag!r}") from None

    @staticmethod
    def _cipher_aes_key(value, secret, salt, cost, decrypt=False):
        """
        Internal helper for :meth:`encrypt_key` --
        handles lowlevel encryption/decryption.

        Algorithm details:

        This function uses PBKDF2-HMAC-SHA256 to generate a 32-byte AES key
        and a 16-byte IV from the application secret & random salt.
        It then uses AES-256-CTR to encrypt/decrypt the TOTP key.

        CTR mode was chosen over CBC because the main attack scenario here
        is that the attacker has stolen the database, and is trying to decrypt a TOTP key
        (the plaintext value here).  To make it hard for them, we want every password
        to decrypt to a potentially valid key -- thus need to avoid any authentication
        or padding oracle attacks.  While some random padding construction could be devised
        to make this work for CBC mode, a stream cipher mode is just plain simpler.
        OFB/CFB modes would also work here, but seeing as they have malleability
        and cyclic issues (though remote and barely relevant here),
        CTR was picked as the best overall choice.
        """
        # make sure backend AES support is available
        if _cg_ciphers is None:
            raise RuntimeError(
                "TOTP encryption requires 'cryptography' package "
                "(https://cryptography.io)"
            )

        # use pbkdf2 to derive both key (32 bytes) & iv (16 bytes)
        # NOTE: this requires 2 sha256 blocks to be calculated.
        keyiv = pbkdf2_hmac("sha256", secret, salt=salt, rounds=(1 << cost), keylen=48)

        # use AES-256-CTR to encrypt/decrypt input value
        cipher = _cg_ciphers.Cipher(
            _cg_ciphers.algorithms.AES(keyiv[:32]),
            _cg_ciphers.modes.CTR(keyiv[32:]),
            _cg_default_backend(),
        )
        ctx = cipher.decryptor() if decrypt else cipher.encryptor()
        return ctx.update(value) + ctx.finalize()

    def encrypt_key(self, key):
        """
        Helper used to encrypt TOTP keys for storage.

        :param key:
            TOTP key to encrypt, as raw bytes.

        :returns:
            dict containing encrypted TOTP key & configuration parameters.
            this format should be treated as opaque, and potentially subject
            to change, though it is designed to be easily serialized/deserialized
            (e.g. via JSON).

        .. note::

            This function requires installation of the external
            `cryptography <https://cryptography.io>`_ package.

        To give some algorithm details:  This function uses AES-256-CTR to encrypt
        the provided data.  It takes the application secret and randomly generated salt,
        and uses PBKDF2-HMAC-SHA256 to combine them and generate the AES key & IV.
        """
        if not key:
            raise ValueError("no key provided")
        salt = getrandbytes(rng, self.salt_size)
        cost = self.encrypt_cost
        tag = self.default_tag
        if not tag:
            raise TypeError("no application secrets configured, can't encrypt OTP key")
        ckey = self._cipher_aes_key(key, self.get_secret(tag), salt, cost)
        # XXX: switch to base64?
        return dict(v=1, c=cost, t=tag, s=b32encode(salt), k=b32encode(ckey))

    def decrypt_key(self, enckey):
        """
        Helper used to decrypt TOTP keys from storage format.
        Consults configured secrets to decrypt key.

        :param source:
            source object, as returned by :meth:`encrypt_key`.

        :returns:
            ``(key, needs_recrypt)`` --

            **key** will be the decrypted key, as bytes.

            **needs_recrypt** will be a boolean flag indicating
            whether encryption cost or default tag is too old,
            and henace that key needs re-encrypting before storing.

        .. note::

            This function requires installation of the external
            `cryptography <https://cryptography.io>`_ package.
        """
        if not isinstance(enckey, dict):
            raise TypeError("'enckey' must be dictionary")
        version = enckey.get("v", None)
        needs_recrypt = False
        if version == 1:
            _cipher_key = self._cipher_aes_key
        else:
            raise ValueError(f"missing / unrecognized 'enckey' version: {version!r}")
        tag = enckey["t"]
        cost = enckey["c"]
        key = _cipher_key(
            value=b32decode(enckey["k"]),
            secret=self.get_secret(tag),
            salt=b32decode(enckey["s"]),
            cost=cost,
        )
        if cost != self.encrypt_cost or tag != self.default_tag:
            needs_recrypt = True
        return key, needs_recrypt


#: helper to convert HOTP counter to bytes
_pack_uint64 = struct.Struct(">Q").pack

#: helper to extract value from HOTP digest
_unpack_uint32 = struct.Struct(">I").unpack

#: dummy bytes used as temp key for .using() method
_DUMMY_KEY = b"\x00" * 16


class TOTP:
    """
    Helper for generating and verifying TOTP codes.

    Given a secret key and set of configuration options, this object
    offers methods for token generation, token validation, and serialization.
    It can also be used to track important persistent TOTP state,
    such as the last counter used.

    This class accepts the following options
    (only **key** and **format** may be specified as positional arguments).

    :arg str key:
        The secret key to use. By default, should be encoded as
        a base32 string (see **format** for other encodings).

        Exactly one of **key** or ``new=True`` must be specified.

    :arg str format:
        The encoding used by the **key** parameter. May be one of:
        ``"base32"`` (base32-encoded string),
        ``"hex"`` (hexadecimal string), or ``"raw"`` (raw bytes).
        Defaults to ``"base32"``.

    :param bool new:
        If ``True``, a new key will be generated using :class:`random.SystemRandom`.

        Exactly one ``new=True`` or **key** must be specified.

    :param str label:
        Label to associate with this token when generating a URI.
        Displayed to user by most OTP client applications (e.g. Google Authenticator),
        and typically has format such as ``"John Smith"`` or ``"jsmith@webservice.example.org"``.
        Defaults to ``None``.
        See :meth:`to_uri` for details.

    :param str issuer:
        String identifying the token issuer (e.g. the domain name of your service).
        Used internally by some OTP client applications (e.g. Google Authenticator) to distinguish entries
        which otherwise have the same label.
        Optional but strongly recommended if you're rendering to a URI.
        Defaults to ``None``.
        See :meth:`to_uri` for details.

    :param int size:
        Number of bytes when generating new keys. Defaults to size of hash algorithm (e.g. 20 for SHA1).

        .. warning::

            Overriding the default values for ``digits``, ``period``, or ``alg`` may
            cause problems with some OTP client programs (such as Google Authenticator),
            which may have these defaults hardcoded.

    :param int digits:
        The number of digits in the generated / accepted tokens. Defaults to ``6``.
        Must be in range [6 .. 10].

        .. rst-class:: inline-title
        .. caution::
           Due to a limitation of the HOTP algorithm, the 10th digit can only take on values 0 .. 2,
           and thus offers very little extra security.

    :param str alg:
        Name of hash algorithm to use. Defaults to ``"sha1"``.
        ``"sha256"`` and ``"sha512"`` are also accepted, per :rfc:`6238`.

    :param int period:
        The time-step period to use, in integer seconds. Defaults to ``30``.

    ..
        See the passlib documentation for a full list of attributes & methods.
    """

    #: minimum number of bytes to allow in key, enforced by passlib.
    # XXX: see if spec says anything relevant to this.
    _min_key_size = 10

    #: minimum & current serialization version (may be set independently by subclasses)
    min_json_version = json_version = 1

    #: AppWallet that this class will use for encrypting/decrypting keys.
    #: (can be overwritten via the :meth:`TOTP.using()` constructor)
    wallet = None

    #: function to get system time in seconds, as needed by :meth:`generate` and :meth:`verify`.
    #: defaults to :func:`time.time`, but can be overridden on a per-instance basis.
    now = _time.time

    # ---------------------------------------------------------------------------
    # configuration attrs
    # ---------------------------------------------------------------------------

    #: [private] secret key as raw :class:`!bytes`
    #: see .key property for public access.
    _key = None

    #: [private] cached copy of encrypted secret,
    #: so .to_json() doesn't have to re-encrypt on each call.
    _encrypted_key = None

    #: [private] cached copy of keyed HMAC function,
    #: so ._generate() doesn't have to rebuild this each time
    #: ._find_match() invokes it.
    _keyed_hmac = None

    #: number of digits in the generated tokens.
    digits = 6

    #: name of hash algorithm in use (e.g. ``"sha1"``)
    alg = "sha1"

    #: default label for :meth:`to_uri`
    label = None

    #: default issuer for :meth:`to_uri`
    issuer = None

    #: number of seconds per counter step.
    #: *(TOTP uses an internal time-derived counter which
    #: increments by 1 every* :attr:`!period` *seconds)*.
    period = 30

    # ---------------------------------------------------------------------------
    # state attrs
    # ---------------------------------------------------------------------------

    #: Flag set by deserialization methods to indicate the object needs to be re-serialized.
    #: This can be for a number of reasons -- encoded using deprecated format,
    #: or encrypted using a deprecated key or too few rounds.
    changed = False

    @classmethod
    def using(
        cls,
        digits=None,
        alg=None,
        period=None,
        issuer=None,
        wallet=None,
        now=None,
        **kwds,
    ):
        """
        Dynamically create subtype of :class:`!TOTP` class
        which has the specified defaults set.

        :parameters: **digits, alg, period, issuer**:

            All these options are the same as in the :class:`TOTP` constructor,
            and the resulting class will use any values you specify here
            as the default for all TOTP instances it creates.

        :param wallet:
            Optional :class:`AppWallet` that will be used for encrypting/decrypting keys.

        :param secrets, secrets_path, encrypt_cost:

            If specified, these options will be passed to the :class:`AppWallet` constructor,
            allowing you to directly specify the secret keys that should be used
            to encrypt & decrypt stored keys.

        :returns:
            subclass of :class:`!TOTP`.

        This method is useful for creating a TOTP class configured
        to use your application's secrets for encrypting & decrypting
        keys, as well as create new keys using it's desired configuration defaults.

        As an example::

            >>> # your application can create a custom class when it initializes
            >>> from passlib.totp import TOTP, generate_secret
            >>> TotpFactory = TOTP.using(secrets={"1": generate_secret()})

            >>> # subsequent TOTP objects created from this factory
            >>> # will use the specified secrets to encrypt their keys...
            >>> totp = TotpFactory.new()
            >>> totp.to_dict()
            {'enckey': {'c': 14,
              'k': 'H77SYXWORDPGVOQTFRR2HFUB3C45XXI7',
              's': 'G5DOQPIHIBUM2OOHHADQ',
              't': '1',
              'v': 1},
             'type': 'totp',
             'v': 1}

        .. seealso:: :ref:`totp-creation` and :ref:`totp-storing-instances` tutorials for a usage example
        """
        # XXX: could add support for setting default match 'window' and 'reuse' policy

        # :param now:
        #     Optional callable that should return current time for generator to use.
        #     Default to :func:`time.time`. This optional is generally not needed,
        #     and is mainly present for examples & unit-testing.

        subcls = type("TOTP", (cls,), {})

        def norm_param(attr, value):
            """
            helper which uses constructor to validate parameter value.
            it returns corresponding attribute, so we use normalized value.
            """
            # NOTE: this creates *subclass* instance,
            #       so normalization takes into account any custom params
            #       already stored.
            kwds = dict(key=_DUMMY_KEY, format="raw")
            kwds[attr] = value
            obj = subcls(**kwds)
            return getattr(obj, attr)

        if digits is not None:
            subcls.digits = norm_param("digits", digits)

        if alg is not None:
            subcls.alg = norm_param("alg", alg)

        if period is not None:
            subcls.period = norm_param("period", period)

        # XXX: add default size as configurable parameter?

        if issuer is not None:
            subcls.issuer = norm_param("issuer", issuer)

        if kwds:
            subcls.wallet = AppWallet(**kwds)
            if wallet:
                raise TypeError(
                    "'wallet' and 'secrets' keywords are mutually exclusive"
                )
        elif wallet is not None:
            if not isinstance(wallet, AppWallet):
                raise exc.ExpectedTypeError(wallet, AppWallet, "wallet")
            subcls.wallet = wallet

        if now is not None:
            err_msg = "now() function must return non-negative int/float"
            assert isinstance(now(), numeric_types), err_msg
            assert now() >= 0, err_msg
            subcls.now = staticmethod(now)

        return subcls

    @classmethod
    def new(cls, **kwds):
        """
        convenience alias for creating new TOTP key, same as ``TOTP(new=True)``
        """
        return cls(new=True, **kwds)

    def __init__(
        self,
        key=None,
        format="base32",
        # keyword only...
        new=False,
        digits=None,
        alg=None,
        size=None,
        period=None,
        label=None,
        issuer=None,
        changed=False,
        **kwds,
    ):
        super().__init__(**kwds)
        if changed:
            self.changed = changed

        # validate & normalize alg
        info = lookup_hash(alg or self.alg)
        self.alg = info.name
        digest_size = info.digest_size
        if digest_size < 20:
            # NOTE: the dynamic truncation (RFC 4226 5.3) reads 4 bytes
            #       at an offset of up to 15, see _generate()
            raise RuntimeError(f"{alg!r} hash digest too small")

        # parse or generate new key
        if new:
            # generate new key
            if key:
                raise TypeError("'key' and 'new=True' are mutually exclusive")
            if size is None:
                # default to digest size, per RFC 6238 Section 5.1
                size = digest_size
            elif size > digest_size:
                # not forbidden by spec, but would just be wasted bytes.
                # maybe just warn about this?
                raise ValueError(
                    "'size' should be less than digest size (%d)" % digest_size
                )
            self.key = getrandbytes(rng, size)
        elif not key:
            raise TypeError("must specify either an existing 'key', or 'new=True'")
        elif format == "encrypted":
            # NOTE: this handles decrypting & setting '.key'
            self.encrypted_key = key
        elif key:
            # use existing key, encoded using specified <format>
            self.key = _decode_bytes(key, format)
            if not self.key:
                # e.g. a secret consisting only of separators / padding
                raise ValueError("secret key contains no data")

        # enforce min key size
        if len(self.key) < self._min_key_size:
            # only making this fatal for new=True,
            # so that existing (but ridiculously small) keys can still be used.
            msg = (
                "for security purposes, secret key must be >= %d bytes"
                % self._min_key_size
            )
            if new:
                raise ValueError(msg)
            warn(msg, exc.PasslibSecurityWarning, stacklevel=1)

        # validate digits
        if digits is None:
            digits = self.digits
        if not isinstance(digits, int):
            raise TypeError(f"digits must be an integer, not a {type(digits)!r}")
        if digits < 6 or digits > 10:
            raise ValueError("digits must in range(6,11)")
        self.digits = digits

        # validate label
        if label:
            self._check_label(label)
            self.label = label

        # validate issuer
        if issuer:
            self._check_issuer(issuer)
            self.issuer = issuer

        # init period
        if period is not None:
            self._check_serial(period, "period", minval=1)
            self.period = period

    @staticmethod
    def _check_serial(value, param, minval=0):
        """
        check that serial value (e.g. 'counter') is non-negative integer
        """
        if not isinstance(value, int):
            raise exc.ExpectedTypeError(value, "int", param)
        if value < minval:
            raise ValueError("%s must be >= %d" % (param, minval))

    @staticmethod
    def _check_label(label):
        """
        check that label doesn't contain chars forbidden by KeyURI spec
        """
        if label and ":" in label:
            raise ValueError("label may not contain ':'")

    @staticmethod
    def _check_issuer(issuer):
        """
        check that issuer doesn't contain chars forbidden by KeyURI spec
        """
        if issuer and ":" in issuer:
            raise ValueError("issuer may not contain ':'")

    @property
    def key(self):
        """
        secret key as raw bytes
        """
        return self._key

    @key.setter
    def key(self, value):
        # set key
        if not isinstance(value, bytes):
            raise exc.ExpectedTypeError(value, bytes, "key")
        self._key = value

        # clear cached properties derived from key
        self._encrypted_key = self._keyed_hmac = None

    # ------------------------------------------------------------------
    # encrypted key
    # ------------------------------------------------------------------
    @property
    def encrypted_key(self):
        """
        secret key, encrypted using application secret.
        this match the output of :meth:`AppWallet.encrypt_key`,
        and should be treated as an opaque json serializable object.
        """
        enckey = self._encrypted_key
        if enckey is None:
            wallet = self.wallet
            if not wallet:
                raise TypeError(
                    "no application secrets present, can't encrypt TOTP key"
                )
            enckey = self._encrypted_key = wallet.encrypt_key(self.key)
        return enckey

    @encrypted_key.setter
    def encrypted_key(self, value):
        wallet = self.wallet
        if not wallet:
            raise TypeError("no application secrets present, can't decrypt TOTP key")
        self.key, needs_recrypt = wallet.decrypt_key(value)
        if needs_recrypt:
            # mark as changed so it gets re-encrypted & written to db
            self.changed = True
        else:
            # cache encrypted key for re-use
            self._encrypted_key = value

    # ------------------------------------------------------------------
    # pretty-printed / encoded key helpers
    # ------------------------------------------------------------------

    @property
    def hex_key(self):
        """
        secret key encoded as hexadecimal string
        """
        return bascii_to_str(base64.b16encode(self.key)).lower()

    @property
    def base32_key(self):
        """
        secret key encoded as base32 string
        """
        return b32encode(self.key)

    def pretty_key(self, format="base32", sep="-"):
        """
        pretty-print the secret key.

        This is mainly useful for situations where the user cannot get the qrcode to work,
        and must enter the key manually into their TOTP client. It tries to format
        the key in a manner that is easier for humans to read.

        :param format:
            format to output secret key. ``"hex"`` and ``"base32"`` are both accepted.

        :param sep:
            separator to insert to break up key visually.
            can be any of ``"-"`` (the default), ``" "``, or ``False`` (no separator).

        :return:
            key as native string.

        Usage example::

            >>> t = TOTP('s3jdvb7qd2r7jpxx')
            >>> t.pretty_key()
            'S3JD-VB7Q-D2R7-JPXX'
        """
        if format == "hex" or format == "base16":
            key = self.hex_key
        elif format == "base32":
            key = self.base32_key
        else:
            raise ValueError(f"unknown byte-encoding format: {format!r}")
        if sep:
            key = group_string(key, sep)
        return key

    @classmethod
    def normalize_time(cls, time):
        """
        Normalize time value to unix epoch seconds.

        :arg time:
            Can be ``None``, :class:`!datetime`,
            or unix epoch timestamp as :class:`!float` or :class:`!int`.
            If ``None``, uses current system time.
            Naive datetimes are treated as UTC.

        :returns:
            unix epoch timestamp as :class:`int`.
        """
        if isinstance(time, int):
            return time
        if isinstance(time, float):
            return int(time)
        if time is None:
            return int(cls.now())
        if hasattr(time, "utctimetuple"):
            # coerce datetime to UTC timestamp
            # NOTE: utctimetuple() assumes naive datetimes are in UTC
            # NOTE: we explicitly *don't* want microseconds.
            return calendar.timegm(time.utctimetuple())
        raise exc.ExpectedTypeError(time, "int, float, or datetime", "time")

    def _time_to_counter(self, time):
        """
        convert timestamp to HOTP counter using :attr:`period`.
        """
        return time // self.period

    def _counter_to_time(self, counter):
        """
        convert HOTP counter to timestamp using :attr:`period`.
        """
        return counter * self.period

    @hybrid_method
    def normalize_token(self_or_cls, token):
        """
        Normalize OTP token representation:
        strips whitespace, converts integers to a zero-padded string,
        validates token content & number of digits.

        This is a hybrid method -- it can be called at the class level,
        as ``TOTP.normalize_token()``, or the instance level as ``TOTP().normalize_token()``.
        It will normalize to the instance-specific number of :attr:`~TOTP.digits`,
        or use the class default.

        :arg token:
            token as ascii bytes, str, or an integer.

        :raises ValueError:
            if token has wrong number of digits, or contains non-numeric characters.

        :returns:
            token as :class:`!str`, containing only digits 0-9.
        """
        digits = self_or_cls.digits
        if isinstance(token, int):
            if token < 0:
                raise MalformedTokenError("Token must contain only the digits 0-9")
            token = "%0*d" % (digits, token)
        else:
            try:
                token = to_unicode(token, param="token")
            except UnicodeDecodeError:
                raise MalformedTokenError(
                    "Token must contain only the digits 0-9"
                ) from None
            token = _clean_re.sub("", token)
            # NOTE: str.isdigit() alone would also accept non-ASCII digits
            if not (token.isascii() and token.isdigit()):
                raise MalformedTokenError("Token must contain only the digits 0-9")
        if len(token) != digits:
            raise MalformedTokenError("Token must have exactly %d digits" % digits)
        return token

    # # debug helper
    #    def generate_range(self, size, time=None):
    #        counter = self._time_to_counter(time) - (size + 1) // 2
    #        end = counter + size
    #        while counter <= end:
    #            token = self._generate(counter)
    #            yield TotpToken(self, token, counter)
    #            counter += 1

    def generate(self, time=None):
        """
        Generate token for specified time
        (uses current time if none specified).

        :arg time:
            Can be ``None``, a :class:`!datetime`,
            or class:`!float` / :class:`!int` unix epoch timestamp.
            If ``None`` (the default), uses current system time.
            Naive datetimes are treated as UTC.

        :returns:

            A :class:`TotpToken` instance, which can be treated
            as a sequence of ``(token, expire_time)`` -- see that class
            for more details.

        Usage example::

            >>> # generate a new token, wrapped in a TotpToken instance...
            >>> otp = TOTP('s3jdvb7qd2r7jpxx')
            >>> otp.generate(1419622739)
            <TotpToken token='897212' expire_time=1419622740>

            >>> # when you just need the token...
            >>> otp.generate(1419622739).token
            '897212'
        """
        time = self.normalize_time(time)
        counter = self._time_to_counter(time)
        if counter < 0:
            raise ValueError("timestamp must be >= 0")
        token = self._generate(counter)
        return TotpToken(self, token, counter)

    def _generate(self, counter):
        """
        base implementation of HOTP token generation algorithm.

        :arg counter: HOTP counter, as non-negative integer
        :returns: token as unicode string
        """
        # generate digest
        assert isinstance(counter, int), "counter must be integer"
        assert counter >= 0, "counter must be non-negative"
        keyed_hmac = self._keyed_hmac
        if keyed_hmac is None:
            keyed_hmac = self._keyed_hmac = compile_hmac(self.alg, self.key)
        digest = keyed_hmac(_pack_uint64(counter))
        digest_size = keyed_hmac.digest_info.digest_size
        assert len(digest) == digest_size, "digest_size: sanity check failed"

        # derive 31-bit token value
        # assert isinstance(digest, bytes)
        assert (
            digest_size >= 20
        ), (
            "digest_size: sanity check 2 failed"
        )  # otherwise 0xF+4 will run off end of hash.
        offset = digest[-1] & 0xF
        value = _unpack_uint32(digest[offset : offset + 4])[0] & 0x7FFFFFFF

        # render to decimal string, return last <digits> chars
        # NOTE: the 10'th digit is not as secure, as it can only take on values 0-2, not 0-9,
        #       due to 31-bit mask on int ">I". But some servers / clients use it :|
        #       if 31-bit mask removed (which breaks spec), would only get values 0-4.
        digits = self.digits
        assert 0 < digits < 11, "digits: sanity check failed"
        return ("%0*d" % (digits, value))[-digits:]

    @classmethod
    def verify(cls, token, source, **kwds):
        r"""
        Convenience wrapper around :meth:`TOTP.from_source` and :meth:`TOTP.match`.

        This parses a TOTP key & configuration from the specified source,
        and tries and match the token.
        It's designed to parallel the :meth:`passlib.ifc.PasswordHash.verify` method.

        :param token:
            Token string to match.

        :param source:
            Serialized TOTP key.
            Can be anything accepted by :meth:`TOTP.from_source`.

        :param \\*\\*kwds:
            All additional keywords passed to :meth:`TOTP.match`.

        :return:
            A :class:`TotpMatch` instance, or raises a :exc:`TokenError`.
        """
        return cls.from_source(source).match(token, **kwds)

    def match(self, token, time=None, window=30, skew=0, last_counter=None):
        """
        Match TOTP token against specified timestamp.
        Searches within a window before & after the provided time,
        in order to account for transmission delay and small amounts of skew in the client's clock.

        :arg token:
            Token to validate.
            may be integer or string (whitespace and hyphens are ignored).

        :param time:
            Unix epoch timestamp, can be any of :class:`!float`, :class:`!int`, or :class:`!datetime`.
            if ``None`` (the default), uses current system time.
            *this should correspond to the time the token was received from the client*.

        :param int window:
            How far backward and forward in time to search for a match.
            Measured in seconds. Defaults to ``30``.  Typically only useful if set
            to multiples of :attr:`period`.

        :param int skew:
            Adjust timestamp by specified value, to account for excessive
            client clock skew. Measured in seconds. Defaults to ``0``.

            Negative skew (the common case) indicates transmission delay,
            and/or that the client clock is running behind the server.

            Positive skew indicates the client clock is running ahead of the server
            (and by enough that it cancels out any negative skew added by
            the transmission delay).

            You should ensure the server clock uses a reliable time source such as NTP,
            so that only the client clock's inaccuracy needs to be accounted for.

            This is an advanced parameter that should usually be left at ``0``;
            The **window** parameter is usually enough to account
            for any observed transmission delay.

        :param last_counter:
            Optional value of last counter value that was successfully used.
            If specified, verify will never search earlier counters,
            no matter how large the window is.

            Useful when client has previously authenticated,
            and thus should never provide a token older than previously
            verified value.

        :raises ~passlib.exc.TokenError:

            If the token is malformed, fails to match, or has already been used.

        :returns TotpMatch:

            Returns a :class:`TotpMatch` instance on successful match.
            Can be treated as tuple of ``(counter, time)``.
            Raises error if token is malformed / can't be verified.

        Usage example::

            >>> totp = TOTP('s3jdvb7qd2r7jpxx')

            >>> # valid token for this time period
            >>> totp.match('897212', 1419622729)
            <TotpMatch counter=47320757 time=1419622729 cache_seconds=60>

            >>> # token from counter step 30 sec ago (within allowed window)
            >>> totp.match('000492', 1419622729)
            <TotpMatch counter=47320756 time=1419622729 cache_seconds=60>

            >>> # invalid token -- token from 60 sec ago (outside of window)
            >>> totp.match('760389', 1419622729)
            Traceback:
                ...
            InvalidTokenError: Token did not match
        """
        time = self.normalize_time(time)
        self._check_serial(window, "window")

        client_time = time + skew
        if last_counter is None:
            last_counter = -1
        start = max(last_counter, self._time_to_counter(client_time - window))
        end = self._time_to_counter(client_time + window) + 1
        # XXX: could pass 'expected = _time_to_counter(client_time + TRANSMISSION_DELAY)'
        #      to the _find_match() method, would help if window set to very large value.

        counter = self._find_match(token, start, end)
        assert counter >= last_counter, "sanity check failed: counter went backward"

        if counter == last_counter:
            raise UsedTokenError(expire_time=(last_counter + 1) * self.period)

        # NOTE: By returning match tied to <time>, not <client_time>, we're
        #       causing .skipped to reflect the observed skew, independent of
        #       the 'skew' param.  This is deliberately done so that caller
        #       can use historical .skipped values to estimate future skew.
        return TotpMatch(self, counter, time, window)

    def _find_match(self, token, start, end, expected=None):
        """
        helper for verify() --
        returns counter value within specified range that matches token.

        :arg token:
            token value to match (will be normalized internally)

        :arg start:
            starting counter value to check

        :arg end:
            check up to (but not including) this counter value

        :arg expected:
            optional expected value where search should start,
            to help speed up searches.

        :raises ~passlib.exc.TokenError:
            If the token is malformed, or fails to verify.

        :returns:
            counter value that matched
        """
        token = self.normalize_token(token)
        start = max(start, 0)
        if end <= start:
            raise InvalidTokenError
        generate = self._generate
        if not (expected is None or expected < start) and consteq(
            token, generate(expected)
        ):
            return expected
        # XXX: if (end - start) is very large (e.g. for resync purposes),
        #      could start with expected value, and work outward from there,
        #      alternately checking before & after it until match is found.
        # TODO: replace counter loop with "for counter in range(start, end)";
        #       think this was holding from PY2+win32 issue with values > 32 bit (e.g. 'end').
        counter = start
        while counter < end:
            if consteq(token, generate(counter)):
                return counter
            counter += 1
        raise InvalidTokenError

    # -------------------------------------------------------------------------
    # TODO: resync(self, tokens, time=None, min_tokens=10, window=100)
    #       helper to re-synchronize using series of sequential tokens,
    #       all of which must validate; per RFC recommendation.
    # NOTE: need to make sure this function is constant time
    #       (i.e. scans ALL tokens, and doesn't short-circuit after first mismatch)
    # -------------------------------------------------------------------------

    @classmethod
    def from_source(cls, source):
        """
        Load / create a TOTP object from a serialized source.
        This acts as a wrapper for the various deserialization methods:

        * TOTP URIs are handed off to :meth:`from_uri`
        * Any other strings are handed off to :meth:`from_json`
        * Dicts are handed off to :meth:`from_dict`

        :param source:
            Serialized TOTP object.

        :raises ValueError:
            If the key has been encrypted, but the application secret isn't available;
            or if the string cannot be recognized, parsed, or decoded.

            See :meth:`TOTP.using()` for how to configure application secrets.

        :returns:
            a :class:`TOTP` instance.
        """
        if isinstance(source, TOTP):
            # return object unchanged if they share same wallet.
            # otherwise make a new one that's bound to expected wallet.
            if cls.wallet == source.wallet:
                return source
            source = source.to_dict(encrypt=False)
        if isinstance(source, dict):
            return cls.from_dict(source)
        # NOTE: letting to_unicode() raise TypeError in this case
        source = to_unicode(source, param="totp source")
        if source.startswith("otpauth://"):
            return cls.from_uri(source)
        return cls.from_json(source)

    @classmethod
    def from_uri(cls, uri):
        """
        create an OTP instance from a URI (such as returned by :meth:`to_uri`).

        :returns:
            :class:`TOTP` instance.

        :raises ValueError:
            if the uri cannot be parsed or contains errors.

        .. seealso:: :ref:`totp-configuring-clients` tutorial for a usage example
        """
        # check for valid uri
        uri = to_unicode(uri, param="uri").strip()
        result = urlparse(uri)
        if result.scheme != "otpauth":
            raise cls._uri_parse_error("wrong uri scheme")

        # validate netloc, and hand off to helper
        cls._check_otp_type(result.netloc)
        return cls._from_parsed_uri(result)

    @classmethod
    def _check_otp_type(cls, type):
        """
        validate otp URI type is supported.
        returns True or raises appropriate error.
        """
        if type == "totp":
            return True
        if type == "hotp":
            raise NotImplementedError("HOTP not supported")
        raise ValueError(f"unknown otp type: {type!r}")

    @classmethod
    def _from_parsed_uri(cls, result):
        """
        internal from_uri() helper --
        handles parsing a validated TOTP URI

        :param result:
            a urlparse() instance

        :returns:
            cls instance
        """

        # decode label from uri path
        label = result.path
        if label.startswith("/") and len(label) > 1:
            label = unquote(label[1:])
        else:
            raise cls._uri_parse_error("missing label")

        # extract old-style issuer prefix
        if ":" in label:
            try:
                issuer, label = label.split(":")
            except ValueError:  # too many ":"
                raise cls._uri_parse_error("malformed label")
        else:
            issuer = None
        if label:
            # NOTE: KeyURI spec says there may be leading spaces
            label = label.strip() or None

        # parse query params
        params = dict(label=label)
        for k, v in parse_qsl(result.query, keep_blank_values=True):
            if k in params:
                raise cls._uri_parse_error(f"duplicate parameter ({k!r})")
            params[k] = v

        # synchronize issuer prefix w/ issuer param
        if issuer:
            if "issuer" not in params:
                params["issuer"] = issuer
            elif params["issuer"] != issuer:
                raise cls._uri_parse_error("conflicting issuer identifiers")

        # convert query params to constructor kwds, and call constructor
        return cls(**cls._adapt_uri_params(**params))

    @classmethod
    def _adapt_uri_params(
        cls,
        label=None,
        secret=None,
        issuer=None,
        digits=None,
        algorithm=None,
        period=None,
        **extra,
    ):
        """
        from_uri() helper --
        converts uri params into constructor args.
        """
        if not label:
            raise cls._uri_parse_error("missing label")
        if not secret:
            raise cls._uri_parse_error("missing 'secret' parameter")
        kwds = dict(label=label, issuer=issuer, key=secret, format="base32")
        if digits:
            kwds["digits"] = cls._uri_parse_int(digits, "digits")
        if algorithm:
            kwds["alg"] = algorithm
        if period:
            kwds["period"] = cls._uri_parse_int(period, "period")
        if extra:
            # malicious uri, deviation from spec, or newer revision of spec?
            # in either case, we issue warning and ignore extra params.
            warn(
                f"{cls}: unexpected parameters encountered in otp uri: {extra!r}",
                exc.PasslibRuntimeWarning,
            )
        return kwds

    @staticmethod
    def _uri_parse_error(reason):
        """uri parsing helper -- creates preformatted error message"""
        return ValueError(f"Invalid otpauth uri: {reason}")

    @classmethod
    def _uri_parse_int(cls, source, param):
        """uri parsing helper -- int() wrapper"""
        try:
            return int(source)
        except ValueError:
            raise cls._uri_parse_error(f"Malformed {param!r} parameter")

    def to_uri(self, label=None, issuer=None):
        """
        Serialize key and configuration into a URI, per
        Google Auth's `KeyUriFormat <http://code.google.com/p/google-authenticator/wiki/KeyUriFormat>`_.

        :param str label:
            Label to associate with this token when generating a URI.
            Displayed to user by most OTP client applications (e.g. Google Authenticator),
            and typically has format such as ``"John Smith"`` or ``"jsmith@webservice.example.org"``.

            Defaults to **label** constructor argument. Must be provided in one or the other location.
            May not contain ``:``.

        :param str issuer:
            String identifying the token issuer (e.g. the domain or canonical name of your service).
            Optional but strongly recommended if you're rendering to a URI.
            Used internally by some OTP client applications (e.g. Google Authenticator) to distinguish entries
            which otherwise have the same label.

            Defaults to **issuer** constructor argument, or ``None``.
            May not contain ``:``.

        :raises ValueError:
            * if a label was not provided either as an argument, or in the constructor.
            * if the label or issuer contains invalid characters.

        :returns:
            all the configuration information for this OTP token generator,
            encoded into a URI.

        These URIs are frequently converted to a QRCode for transferring
        to a TOTP client application such as Google Auth.
        Usage example::

            >>> from passlib.totp import TOTP
            >>> tp = TOTP('s3jdvb7qd2r7jpxx')
            >>> uri = tp.to_uri("user@example.org", "myservice.another-example.org")
            >>> uri
            'otpauth://totp/user@example.org?secret=S3JDVB7QD2R7JPXX&issuer=myservice.another-example.org'

        .. versionchanged:: 1.7.2

            This method now prepends the issuer URI label.  This is recommended by the KeyURI
            specification, for compatibility with older clients.
        """
        # encode label
        if label is None:
            label = self.label
        if not label:
            raise ValueError(
                "a label must be specified as argument, or in the constructor"
            )
        self._check_label(label)
        # NOTE: reference examples in spec seem to indicate the '@' in a label
        #       shouldn't be escaped, though spec doesn't explicitly address this.
        # XXX: is '/' ok to leave unencoded?
        label = quote(label, "@")

        # encode query parameters
        params = self._to_uri_params()
        if issuer is None:
            issuer = self.issuer
        if issuer:
            self._check_issuer(issuer)
            # NOTE: per KeyURI spec, including issuer as part of label is deprecated,
            #       in favor of adding it to query params.  however, some QRCode clients
            #       don't recognize the 'issuer' query parameter, so spec recommends (as of 2018-7)
            #       to include both.
            label = "{}:{}".format(quote(issuer, "@"), label)
            params.append(("issuer", issuer))
        # NOTE: not using urllib.urlencode() because it encodes ' ' as '+';
        #       but spec says to use '%20', and not sure how fragile
        #       the various totp clients' parsers are.
        param_str = "&".join(
            "{}={}".format(key, quote(value, "")) for key, value in params
        )
        assert param_str, "param_str should never be empty"

        # render uri
        return f"otpauth://totp/{label}?{param_str}"

    def _to_uri_params(self):
        """return list of (key, param) entries for URI"""
        args = [("secret", self.base32_key)]
        if self.alg != "sha1":
            args.append(("algorithm", self.alg.upper()))
        if self.digits != 6:
            args.append(("digits", str(self.digits)))
        if self.period != 30:
            args.append(("period", str(self.period)))
        return args

    @classmethod
    def from_json(cls, source):
        """
        Load / create an OTP object from a serialized json string
        (as generated by :meth:`to_json`).

        :arg json:
            Serialized output from :meth:`to_json`, as str or ascii bytes.

        :raises ValueError:
            If the key has been encrypted, but the application secret isn't available;
            or if the string cannot be recognized, parsed, or decoded.

            See :meth:`TOTP.using()` for how to configure application secrets.

        :returns:
            a :class:`TOTP` instance.

        .. seealso:: :ref:`totp-storing-instances` tutorial for a usage example
        """
        source = to_unicode(source, param="json source")
        return cls.from_dict(json.loads(source))

    def to_json(self, encrypt=None):
        """
        Serialize configuration & internal state to a json string,
        mainly useful for persisting client-specific state in a database.
        All keywords passed to :meth:`to_dict`.

        :returns:
            json string containing serializes configuration & state.
        """
        state = self.to_dict(encrypt=encrypt)
        return json.dumps(state, sort_keys=True, separators=(",", ":"))

    @classmethod
    def from_dict(cls, source):
        """
        Load / create a TOTP object from a dictionary
        (as generated by :meth:`to_dict`)

        :param source:
            dict containing serialized TOTP key & configuration.

        :raises ValueError:
            If the key has been encrypted, but the application secret isn't available;
            or if the dict cannot be recognized, parsed, or decoded.

            See :meth:`TOTP.using()` for how to configure application secrets.

        :returns:
            A :class:`TOTP` instance.

        .. seealso:: :ref:`totp-storing-instances` tutorial for a usage example
        """
        if not isinstance(source, dict) or "type" not in source:
            raise cls._dict_parse_error("unrecognized format")
        return cls(**cls._adapt_dict_kwds(**source))

    @classmethod
    def _adapt_dict_kwds(cls, type, **kwds):
        """
        Internal helper for .from_json() --
        Adapts serialized json dict into constructor keywords.
        """
        # default json format is just serialization of constructor kwds.
        # XXX: just pass all this through to _from_json / constructor?
        # go ahead and mark as changed (needs re-saving) if the version is too old
        cls._check_otp_type(type)
        ver = kwds.pop("v", None)
        if not ver or not (cls.min_json_version <= ver <= cls.json_version):
            raise cls._dict_parse_error(f"missing/unsupported version ({ver!r})")
        if ver != cls.json_version:
            # mark older version as needing re-serializing
            kwds["changed"] = True
        if "enckey" in kwds:
            # handing encrypted key off to constructor, which handles the
            # decryption. this lets it get ahold of (and store) the original
            # encrypted key, so if to_json() is called again, the encrypted
            # key can be re-used.
            # XXX: wallet is known at this point, could decrypt key here.
            if "key" in kwds:  # shouldn't be present w/ enckey
                raise cls._dict_parse_error("both 'enckey' and 'key' present")
            kwds.update(key=kwds.pop("enckey"), format="encrypted")
        elif "key" not in kwds:
            raise cls._dict_parse_error("missing 'enckey' / 'key'")
        # XXX: could should set changed=True if active wallet is available,
        #      and source wasn't encrypted.
        kwds.pop("last_counter", None)  # extract legacy counter parameter
        return kwds

    @staticmethod
    def _dict_parse_error(reason):
        """dict parsing helper -- creates preformatted error message"""
        return ValueError(f"Invalid totp data: {reason}")

    def to_dict(self, encrypt=None):
        """
        Serialize configuration & internal state to a dict,
        mainly useful for persisting client-specific state in a database.

        :param encrypt:
            Whether to output should be encrypted.

            * ``None`` (the default) -- uses encrypted key if application
              secrets are available, otherwise uses plaintext key.
            * ``True`` -- uses encrypted key, or raises TypeError
              if application secret wasn't provided to OTP constructor.
            * ``False`` -- uses raw key.

        :returns:
            dictionary, containing basic (json serializable) datatypes.
        """
        # NOTE: 'type' may seem redundant, but using it so code can try to
        #       detect that this *is* a TOTP json string / dict.
        state = dict(v=self.json_version, type="totp")
        if self.alg != "sha1":
            state["alg"] = self.alg
        if self.digits != 6:
            state["digits"] = self.digits
        if self.period != 30:
            state["period"] = self.period
        # XXX: should we include label as part of json format?
        if self.label:
            state["label"] = self.label
        issuer = self.issuer
        if issuer and issuer != type(self).issuer:
            # (omit issuer if it matches class default)
            state["issuer"] = issuer
        if encrypt is None:
            wallet = self.wallet
            encrypt = wallet and wallet.has_secrets
        if encrypt:
            state["enckey"] = self.encrypted_key
        else:
            state["key"] = self.base32_key
        # NOTE: in the future, may add a "history" parameter
        #       containing a list of (time, skipped) pairs, encoding
        #       the last X successful verifications, to allow persisting
        #       & estimating client clock skew over time.
        return state


class TotpToken(SequenceMixin):
    """
    Object returned by :meth:`TOTP.generate`.
    It can be treated as a sequence of ``(token, expire_time)``,
    or accessed via the following attributes:

    .. autoattribute:: token
    .. autoattribute:: expire_time
    .. autoattribute:: counter
    .. autoattribute:: remaining
    .. autoattribute:: valid
    """

    #: TOTP object that generated this token
    totp = None

    #: Token as decimal-encoded ascii string.
    token = None

    #: HOTP counter value used to generate token (derived from time)
    counter = None

    def __init__(self, totp, token, counter):
        """
        .. warning::
            the constructor signature is an internal detail, and is subject to change.
        """
        self.totp = totp
        self.token = token
        self.counter = counter

    @memoized_property
    def start_time(self):
        """Timestamp marking beginning of period when token is valid"""
        return self.totp._counter_to_time(self.counter)

    @memoized_property
    def expire_time(self):
        """Timestamp marking end of period when token is valid"""
        return self.totp._counter_to_time(self.counter + 1)

    @property
    def remaining(self):
        """number of (float) seconds before token expires"""
        return max(0, self.expire_time - self.totp.now())

    @property
    def valid(self):
        """whether token is still valid"""
        return bool(self.remaining)

    def _as_tuple(self):
        return self.token, self.expire_time

    def __repr__(self):
        expired = "" if self.remaining else " expired"
        return "<TotpToken token='%s' expire_time=%d%s>" % (
            self.token,
            self.expire_time,
            expired,
        )


class TotpMatch(SequenceMixin):
    """
    Object returned by :meth:`TOTP.match` and :meth:`TOTP.verify` on a successful match.

    It can be treated as a sequence of ``(counter, time)``,
    or accessed via the following attributes:

    .. autoattribute:: counter
        :annotation: = 0

    .. autoattribute:: time
        :annotation: = 0

    .. autoattribute:: expected_counter
        :annotation: = 0

    .. autoattribute:: skipped
        :annotation: = 0

    .. autoattribute:: expire_time
        :annotation: = 0

    .. autoattribute:: cache_seconds
        :annotation: = 60

    .. autoattribute:: cache_time
        :annotation: = 0

    This object will always have a ``True`` boolean value.
    """

    #: TOTP object that generated this token
    totp = None

    #: TOTP counter value which matched token.
    #: (Best practice is to subsequently ignore tokens matching this counter
    #: or earlier)
    counter = 0

    #: Timestamp when verification was performed.
    time = 0

    #: Search window used by verify() (affects cache_time)
    window = 30

    def __init__(self, totp, counter, time, window=30):
        """
        .. warning::
            the constructor signature is an internal detail, and is subject to change.
        """
        self.totp = totp
        self.counter = counter
        self.time = time
        self.window = window

    @memoized_property
    def expected_counter(self):
        """
        Counter value expected for timestamp.
        """
        return self.totp._time_to_counter(self.time)

    @memoized_property
    def skipped(self):
        """
        How many steps were skipped between expected and actual matched counter
        value (may be positive, zero, or negative).
        """
        return self.counter - self.expected_counter

    # @memoized_property
    # def start_time(self):
    #     """Timestamp marking start of period when token is valid"""
    #     return self.totp._counter_to_time(self.counter + 1)

    @memoized_property
    def expire_time(self):
        """Timestamp marking end of period when token is valid"""
        return self.totp._counter_to_time(self.counter + 1)

    @memoized_property
    def cache_seconds(self):
        """
        Number of seconds counter should be cached
        before it's guaranteed to have passed outside of verification window.
        """
        # XXX: real value is 'cache_time - now()',
        #      but this is a cheaper upper bound.
        return self.totp.period + self.window

    @memoized_property
    def cache_time(self):
        """
        Timestamp marking when counter has passed outside of verification window.
        """
        return self.expire_time + self.window

    def _as_tuple(self):
        return self.counter, self.time

    def __repr__(self):
        args = (self.counter, self.time, self.cache_seconds)
        return "<TotpMatch counter=%d time=%d cache_seconds=%d>" % args


def generate_secret(entropy=256, charset=BASE64_CHARS[:-2]):
    """
    generate a random string suitable for use as an
    :class:`AppWallet` application secret.

    :param entropy:
        number of bits of entropy (controls size/complexity of password).
    """
    assert entropy > 0
    assert len(charset) > 1
    count = int(math.ceil(entropy * math.log(2, len(charset))))
    return getrandstr(rng, charset, count)
