"""C11 -- the built-in cryptographic primitives equal their standards.

Decided: every constant table equals a reference generated in the checker from the standard
(Blowfish P/S = hex digits of pi; bcrypt magic; DES SPE tables = a linear bit placement of the FIPS 46-3
S-boxes under one index convention, permutation tables GF(2)-linear per nibble; MD4 round tables,
constants, IV; Salsa20/8 quarter-round schedule); straight-line round code has the operand / rotation /
index sequence the standard prescribes (Blowfish Feistel rounds, DES round lanes, MD4 step, Salsa
rotations and masks); bit-routing helpers are the stated permutations (DES key expand/shrink, salt
expansion); incremental-hash bookkeeping (copy() carries every field, digest() restores state,
padding length formula); scrypt size arithmetic and validate(); HMAC / PBKDF1 / PBKDF2 shapes;
SASLprep pipeline order (map, NFKC, then prohibited / bidi checks on the *mapped* text).
Not decided: loop control of the ciphers beyond these shapes (would need execution)."""
from __future__ import annotations

import ast

from pv.q import text as qtext
from pv.model import AnalysisError, walk_no_nested, params, UNKNOWN
from pv import refs, bits as B
from pv.norm import Normalizer
from pv.q import has_stmt, has_if, find_if, returns, body_texts
from . import prim


def site(u, f):
    return f"{u}:{f}"


def fold_locals(model, unitname, fname):
    """constant-fold the straight-line assignments of a table-loader function"""
    u = model.unit(unitname)
    fn = model.func(unitname, fname)
    env = {}
    for st in fn.body:
        if isinstance(st, ast.Assign) and isinstance(st.targets[0], ast.Name):
            env[st.targets[0].id] = model.fold(u, st.value, env=env)
    return env


# ----------------------------------------------------------------------------- Blowfish
BF = "passlib.crypto._blowfish"
BFB = "passlib.crypto._blowfish.base"
BFU = "passlib.crypto._blowfish.unrolled"


def _F_shape(e, var):
    """is e == ((S0[v>>24] + S1[(v>>16)&255]) ^ S2[(v>>8)&255]) + S3[v&255]) & 0xFFFFFFFF  (S names free)"""
    t = qtext(e).replace("S[0]", "S0").replace("S[1]", "S1").replace("S[2]", "S2").replace("S[3]", "S3")
    want = f"(S0[{var} >> 24] + S1[{var} >> 16 & 255] ^ S2[{var} >> 8 & 255]) + S3[{var} & 255] & 4294967295"
    return t == want


def rule_blowfish(model, rep):
    R = "C11.a-blowfish"
    env = fold_locals(model, BFB, "_init_constants")
    P, S = refs.blowfish_tables()
    gp, gs = env.get("BLOWFISH_P", UNKNOWN), env.get("BLOWFISH_S", UNKNOWN)
    if gp is UNKNOWN or gs is UNKNOWN:
        rep.undecided(R, site(BFB, "_init_constants"), "tables do not fold")
    else:
        bad = [i for i, (a, b) in enumerate(zip(gp, P)) if a != b]
        rep.check(list(gp) == P, R, site(BFB, "BLOWFISH_P"), f"18 words; mismatches at {bad[:4]}" if bad or len(gp) != 18 else "18 words equal the hex digits of pi",
                  "the P-array is the first 18 words of the fractional hex digits of pi", witness="bcrypt builtin backend computes a non-standard cipher: every digest differs from other backends")
        for i in range(4):
            box = list(gs[i]) if i < len(gs) else []
            bad = [j for j, (a, b) in enumerate(zip(box, S[i])) if a != b]
            rep.check(box == S[i], R, site(BFB, f"BLOWFISH_S[{i}]"), f"256 words; mismatches at {bad[:4]}" if bad or len(box) != 256 else "256 words equal the hex digits of pi",
                      f"S-box {i} is the next 256 words of pi", witness="builtin bcrypt digests differ for the inputs that index the changed entry")
    # the key schedule overwrites P and the four S-boxes in place: every engine must start from its own copy, at the depth it writes
    init = model.func(BFB, "BlowfishEngine.__init__")
    st = {ast.unparse(a.targets[0]): a.value for a in walk_no_nested(init) if isinstance(a, ast.Assign) and len(a.targets) == 1}

    def flat_copy(v, name):
        return v is not None and ast.unparse(v) in (f"list({name})", f"{name}[:]", f"{name}.copy()", f"[*{name}]")

    def deep_copy(v, name):
        if isinstance(v, ast.ListComp) and len(v.generators) == 1 and ast.unparse(v.generators[0].iter) == name and isinstance(v.generators[0].target, ast.Name) and not v.generators[0].ifs:
            x = v.generators[0].target.id
            return ast.unparse(v.elt) in (f"list({x})", f"{x}[:]", f"{x}.copy()", f"[*{x}]")
        return v is not None and ast.unparse(v) in (f"copy.deepcopy({name})", f"deepcopy({name})")
    rep.check(flat_copy(st.get("self.P"), "BLOWFISH_P"), R, site(BFB, "BlowfishEngine.__init__") + " P", ast.unparse(st["self.P"]) if "self.P" in st else "<none>",
              "each engine works on its own copy of the P-array")
    rep.check(deep_copy(st.get("self.S"), "BLOWFISH_S"), R, site(BFB, "BlowfishEngine.__init__") + " S", ast.unparse(st["self.S"]) if "self.S" in st else "<none>",
              "each engine works on its own copy of every S-box (the boxes themselves are copied, not just the list of four)",
              witness="the first raw_bcrypt() of a process is right; the key schedule has then overwritten the shared constants and every later digest is wrong")
    u = model.unit(BF)
    v = model.fold(u, ast.Name(id="BCRYPT_CDATA", ctx=ast.Load()))
    import struct
    want = list(struct.unpack(">6I", b"OrpheanBeholderScryDoubt"))
    rep.check(v == want, R, site(BF, "BCRYPT_CDATA"), repr(v), "bcrypt magic = 'OrpheanBeholderScryDoubt' as six big-endian words")
    v = u.assigns.get("digest_struct")
    rep.check(bool(v) and ast.unparse(v[0]) == "struct.Struct('>6I')", R, site(BF, "digest_struct"), ast.unparse(v[0]) if v else "<none>", "digest packed as six big-endian words")
    # base encipher loop
    fn = model.func(BFB, "BlowfishEngine.encipher")
    loop = [n for n in walk_no_nested(fn) if isinstance(n, ast.While)]
    ok = len(loop) == 1 and ast.unparse(loop[0].test) == "i < 17"
    rep.check(ok, R, site(BFB, "BlowfishEngine.encipher"), ast.unparse(loop[0].test) if loop else "<none>", "16 rounds (i = 1..16)")
    if ok:
        asg = [s for s in loop[0].body if isinstance(s, ast.Assign) and ast.unparse(s.targets[0]) == "r"]
        okf = False
        if asg and isinstance(asg[0].value, ast.BinOp):
            # (F(l) ^ P[i]) ^ r
            v = asg[0].value
            parts = []
            def flat(e):
                if isinstance(e, ast.BinOp) and isinstance(e.op, ast.BitXor):
                    flat(e.left); flat(e.right)
                else:
                    parts.append(e)
            flat(v)
            okf = len(parts) == 3 and _F_shape(parts[0], "l") and ast.unparse(parts[1]) == "P[i]" and ast.unparse(parts[2]) == "r"
        rep.check(okf, R, site(BFB, "BlowfishEngine.encipher"), ast.unparse(asg[0])[:120] if asg else "<none>", "round: r ^= F(l) ^ P[i] with F = ((S0[a]+S1[b])^S2[c])+S3[d] mod 2**32",
                  witness="Feistel function / round key order differs from Blowfish")
        rep.check(has_stmt(fn, "l, r = (r, l)") and has_stmt(fn, "l ^= P[0]") and returns(fn) == ["(r ^ P[17], l)"], R, site(BFB, "BlowfishEngine.encipher"),
                  "l ^= P[0]; swap; return (r ^ P[17], l)", "whitening with P[0] and P[17], halves swapped each round")
    # unrolled encipher: 16 alternating rounds
    fn = model.func(BFU, "BlowfishEngine.encipher")
    rounds = [s for s in fn.body if isinstance(s, ast.AugAssign) and isinstance(s.op, ast.BitXor) and ast.unparse(s.target) in ("l", "r")]
    first = rounds[0] if rounds else None
    okseq = len(rounds) == 17 and ast.unparse(rounds[0]) == "l ^= p0"
    for i, st in enumerate(rounds[1:], start=1):
        tgt = "r" if i % 2 else "l"
        src = "l" if i % 2 else "r"
        v = st.value
        good = ast.unparse(st.target) == tgt and isinstance(v, ast.BinOp) and isinstance(v.op, ast.BitXor) and _F_shape(v.left, src) and ast.unparse(v.right) == f"p{i}"
        if not good:
            okseq = False
            rep.violation(R, site(BFU, "BlowfishEngine.encipher"), f"round {i}: {ast.unparse(st)[:100]}", f"round {i} must be `{tgt} ^= F({src}) ^ p{i}`",
                          witness="unrolled Blowfish round uses the wrong half / key word / S-box lane")
    rep.check(okseq, R, site(BFU, "BlowfishEngine.encipher"), f"{len(rounds)} xor statements", "l ^= p0 followed by 16 alternating Feistel rounds with p1..p16")
    rep.check(returns(fn) == ["(r ^ p17, l)"], R, site(BFU, "BlowfishEngine.encipher"), "; ".join(returns(fn)), "final: return (r ^ p17, l)")
    # raw_bcrypt recipe
    fn = model.func(BF, "raw_bcrypt")
    t = qtext(fn)
    facts = [("password += BNULL", "NUL terminator appended for 2a/2b/2y"), ("salt = bcrypt64.decode_bytes(salt)", "salt decoded with the bcrypt alphabet"),
             ("salt = salt[:16]", "16 salt bytes"), ("pass_words = engine.key_to_words(password)", "password cycled into 18 words"),
             ("salt_words16 = salt_words[:4]", "first expansion uses the 4 salt words"), ("engine.eks_salted_expand(pass_words, salt_words16)", "salted key expansion (key, salt)"),
             ("rounds = 1 << log_rounds", "2**cost iterations"), ("engine.eks_repeated_expand(pass_words, salt_words, rounds)", "cost loop alternates key and salt"),
             ("data[i], data[i + 1] = engine.repeat_encipher(data[i], data[i + 1], 64)", "magic enciphered 64 times per block"),
             ("raw = digest_struct.pack(*data)[:-1]", "digest = 23 of the 24 bytes"), ("return bcrypt64.encode_bytes(raw)", "digest encoded with the bcrypt alphabet")]
    for f, why in facts:
        rep.check(has_stmt(fn, f), R, site(BF, "raw_bcrypt"), f, why, witness="builtin bcrypt differs from the reference algorithm")
    rep.check(has_if(fn, "ident == '2'", ["add_null_padding = False"]), R, site(BF, "raw_bcrypt"), "ident '2': no NUL", "the original $2$ variant does not append NUL")
    rep.check(has_if(fn, "log_rounds < 4 or log_rounds > 31"), R, site(BF, "raw_bcrypt"), "4 <= cost <= 31", "cost bounds")
    fn = model.func(BFB, "BlowfishEngine.eks_repeated_expand")
    body = [ast.unparse(x) for x in [n for n in walk_no_nested(fn) if isinstance(n, ast.While)][0].body]
    rep.check(body == ["expand(key_words)", "expand(salt_words)", "n += 1"], R, site(BFB, "BlowfishEngine.eks_repeated_expand"), " | ".join(body), "each cost iteration expands with the key, then the salt")
    fn = model.func(BFB, "BlowfishEngine.key_to_words")
    rep.check("data = repeat_string(data, size << 2)" in qtext(fn) and "struct.unpack('>%dI' % (size,), data)" in qtext(fn), R, site(BFB, "BlowfishEngine.key_to_words"),
              "cycle to 4*size bytes; big-endian words", "key bytes are cycled and read as big-endian words")


# ----------------------------------------------------------------------------- DES
DES = "passlib.crypto.des"


def _linear(tbl):
    """is tbl (2**k entries) GF(2)-linear in its index? tbl[0]==0 and tbl[a^b]==tbl[a]^tbl[b]"""
    n = len(tbl)
    if n & (n - 1) or tbl[0] != 0:
        return False
    k = n.bit_length() - 1
    basis = [tbl[1 << i] for i in range(k)]
    for j in range(n):
        v = 0
        for i in range(k):
            if j >> i & 1:
                v ^= basis[i]
        if v != tbl[j]:
            return False
    return True


def rule_des(model, rep):
    R = "C11.b-des"
    env = fold_locals(model, DES, "_load_tables")
    for name in ("PC1ROT", "PC2ROTA", "PC2ROTB", "IE3264", "CF6464", "SPE", "PCXROT"):
        if env.get(name, UNKNOWN) is UNKNOWN:
            rep.undecided(R, site(DES, name), "table does not fold")
            return
    for name, n_sub in (("PC1ROT", 16), ("PC2ROTA", 16), ("PC2ROTB", 16), ("IE3264", 8), ("CF6464", 16)):
        tbl = env[name]
        ok = len(tbl) == n_sub and all(len(sub) == 16 for sub in tbl)
        bad = [i for i, sub in enumerate(tbl) if not _linear(list(sub))] if ok else []
        rep.check(ok and not bad, R, site(DES, name), f"{len(tbl)} nibble tables; non-linear: {bad}" if (bad or not ok) else f"{n_sub} nibble tables, each GF(2)-linear",
                  f"{name} is a bit permutation/selection: every 16-entry sub-table is GF(2)-linear in its 4 index bits",
                  witness="DES key schedule / initial-final permutation moves a bit wrongly for some inputs: des_crypt, bsdi_crypt, lmhash digests change")
        if ok and not bad and name != "IE3264":
            # images of distinct input bits are disjoint single bits (a permutation moves each bit to one place)
            imgs = [sub[1 << b] for sub in tbl for b in range(4)]
            nz = [x for x in imgs if x]
            single = all(x & (x - 1) == 0 for x in nz)
            disjoint = len(set(nz)) == len(nz)
            rep.check(single and disjoint, R, site(DES, name), f"{len(nz)} non-zero single-bit images", f"{name}: each input bit lands on at most one output bit, no two on the same")
    # IE3264: expansion -- images have weight 1 or 2
    imgs = [sub[1 << b] for sub in env["IE3264"] for b in range(4)]
    ok = all(bin(x).count("1") in (1, 2) for x in imgs) and sorted(bin(x).count("1") for x in imgs).count(2) == 16
    rep.check(ok, R, site(DES, "IE3264"), f"weights {sorted(set(bin(x).count('1') for x in imgs))}", "E expansion: 16 of the 32 bits are duplicated, 16 used once")
    # SPE = placement(S_i(rev6(j)))
    SPE = env["SPE"]

    def rev6(x):
        return int(format(x, "06b")[::-1], 2)
    okall = len(SPE) == 8
    images = []
    for i in range(8 if okall else 0):
        vals = list(SPE[i])
        out = [refs.des_sbox(i, rev6(j)) for j in range(64)]
        basis = {}
        for b in range(4):
            js = [j for j in range(64) if out[j] == (1 << b)]
            basis[b] = vals[js[0]] if len(vals) == 64 else 0
        bad = []
        for j in range(64 if len(vals) == 64 else 0):
            exp = 0
            for b in range(4):
                if out[j] >> b & 1:
                    exp ^= basis[b]
            if exp != vals[j]:
                bad.append(j)
        rep.check(len(vals) == 64 and not bad, R, site(DES, f"SPE[{i}]"), f"entries differing from the FIPS S-box image: {bad[:6]}" if bad else "64 entries = linear placement of S-box outputs",
                  f"SPE[{i}][j] is a fixed bit placement of FIPS 46-3 S{i + 1}(bit-reversed j)",
                  witness=f"DES S-box {i + 1} output wrong for some 6-bit inputs: every DES-based digest changes for keys/blocks hitting that entry")
        images.append([basis[b] for b in range(4)])
    if okall:
        flat = [x for im in images for x in im]
        union = 0
        disjoint = True
        for x in flat:
            if union & x:
                disjoint = False
            union |= x
        rep.check(disjoint, R, site(DES, "SPE"), "S-box output placements pairwise disjoint", "the 32 S-box output bits are placed on disjoint positions (P permutation then E expansion)")
    rep.check(len(env["PCXROT"]) == 8, R, site(DES, "PCXROT"), f"{len(env['PCXROT'])} round pairs", "16 round keys as 8 (even, odd) pairs")
    # round function lanes
    fn = model.func(DES, "des_encrypt_int_block")
    lanes = []
    for n in walk_no_nested(fn):
        if isinstance(n, ast.AugAssign) and isinstance(n.op, ast.BitXor) and ast.unparse(n.target) in ("L", "R"):
            terms = []
            def flat(e):
                if isinstance(e, ast.BinOp) and isinstance(e.op, ast.BitXor):
                    flat(e.left); flat(e.right)
                else:
                    terms.append(ast.unparse(e))
            flat(n.value)
            lanes.append((ast.unparse(n.target), terms))
    want = [f"SPE{k}[B >> {58 - 8 * k} & 63]" for k in range(8)]
    rep.check(len(lanes) == 2 and all(t == want for _, t in lanes) and [l for l, _ in lanes] == ["L", "R"], R, site(DES, "des_encrypt_int_block"),
              "; ".join(f"{l}: {t}" for l, t in lanes)[:200], "each half-round XORs SPE_k[(B >> (58-8k)) & 0x3F] for k = 0..7 (six-bit lanes), L then R",
              witness="a round lane reads the wrong six bits / wrong table")
    for half, ks in (("R", "ks_even"), ("L", "ks_odd")):
        rep.check(has_stmt(fn, f"k = (({half} >> 32 ^ {half}) & salt)".replace("((", "(").replace(") & salt)", ") & salt")) or has_stmt(fn, f"k = ({half} >> 32 ^ {half}) & salt"), R,
                  site(DES, "des_encrypt_int_block"), f"k = (({half} >> 32) ^ {half}) & salt", "salt swaps selected bit pairs of the expanded half")
        rep.check(has_stmt(fn, f"B = k << 32 ^ k ^ {half} ^ {ks}"), R, site(DES, "des_encrypt_int_block"), f"B = (k << 32) ^ k ^ {half} ^ {ks}", f"round input mixes the salted half with {ks}")
    # salt expansion routing (bit-provenance): 24-bit salt -> 4 six-bit lanes
    sal = [n for n in walk_no_nested(fn) if isinstance(n, ast.Assign) and ast.unparse(n.targets[0]) == "salt"]
    if len(sal) == 1:
        try:
            v = B.Evaluator({"salt": B.sym("s", 24)}).ev(sal[0].value)
            used = [b for b in v if b not in (0, 1)]
            ok = B.TOP not in used and len(used) == 24 and len(set(used)) == 24
            lanes_ok = all((pos - 2) % 8 < 6 for pos, b in enumerate(v) if b not in (0, 1)) and all(pos < 32 for pos, b in enumerate(v) if b not in (0, 1))
            rep.check(ok and lanes_ok, R, site(DES, "des_encrypt_int_block"), ast.unparse(sal[0].value)[:120], "salt expansion is a bijective routing of the 24 salt bits into the six-bit lanes",
                      witness="two different salts give the same digest, or salt bits hit padding positions")
        except B.Unsupported as e:
            rep.undecided(R, site(DES, "des_encrypt_int_block"), f"salt expansion: {e}")
    else:
        rep.undecided(R, site(DES, "des_encrypt_int_block"), "salt expansion statement not found")
    rep.check(has_stmt(fn, "L, R = (R, L)") and "while rounds:" in qtext(fn), R, site(DES, "des_encrypt_int_block"), "rounds loop; swap halves", "multi-round variant repeats the 16 rounds and swaps halves")
    rep.check(has_if(fn, "rounds < 1") and has_if(fn, "salt < 0 or salt > INT_24_MASK"), R, site(DES, "des_encrypt_int_block"), "rounds >= 1; 24-bit salt", "argument ranges")
    # key expand / shrink as bit routings
    u = model.unit(DES)
    it = model.fold(u, ast.Name(id="_EXPAND_ITER", ctx=ast.Load()))
    rep.check(it is not UNKNOWN and list(it) == list(range(49, -7, -7)), R, site(DES, "_EXPAND_ITER"), repr(list(it)) if it is not UNKNOWN else "?", "7-bit groups taken from the top: shifts 49,42,...,0")
    fn = model.func(DES, "expand_des_key")
    rep.check(returns(fn)[-1] == "bytes(((key >> shift & 127) << 1 for shift in _EXPAND_ITER))" or "bytes(((key >> shift & 127) << 1 for shift in _EXPAND_ITER))" in returns(fn), R,
              site(DES, "expand_des_key"), returns(fn)[-1], "each 7-bit group becomes a byte with a clear parity bit", witness="56-bit keys expand to the wrong 64-bit key (lmhash, des_encrypt_block)")
    fn = model.func(DES, "shrink_des_key")
    t = qtext(fn)
    rep.check("key >>= 1" in t and "result |= (key & 127) << offset" in t and "key >>= 8" in t and "offset += 7" in t and "while offset < 56:" in t, R, site(DES, "shrink_des_key"),
              "drop parity bit, take 7 bits per byte", "shrink is the inverse routing of expand")
    for name, val in (("INT_24_MASK", 0xFFFFFF), ("INT_56_MASK", (1 << 56) - 1), ("INT_64_MASK", (1 << 64) - 1), ("_KS_MASK", 0xFCFCFCFCFFFFFFFF)):
        rep.check(model.fold(u, ast.Name(id=name, ctx=ast.Load())) == val, R, site(DES, name), hex(val), f"{name} == {val:#x}")
    fn = model.func(DES, "_permute")
    rep.check(body_texts(fn) == ["out = 0", "for r in p:\n    out |= r[c & 15]\n    c >>= 4", "return out"], R, site(DES, "_permute"), " | ".join(body_texts(fn)), "nibble-wise table permutation")


# ----------------------------------------------------------------------------- MD4
MD4 = "passlib.crypto._md4"


def rule_md4(model, rep):
    R = "C11.c-md4"
    c = (MD4, "md4")
    r1, r2, r3 = refs.md4_rounds()
    for name, want in (("_round1", r1), ("_round2", r2), ("_round3", r3)):
        v = model.class_const(c, name)
        bad = [i for i, (a, b) in enumerate(zip(v, want)) if list(a) != b] if v is not UNKNOWN else ["?"]
        rep.check(v is not UNKNOWN and [list(x) for x in v] == want, R, site(MD4, "md4." + name), f"rows differing from RFC 1320: {bad[:4]}" if bad else "16 rows",
                  f"{name} = (registers, message word, shift) schedule of RFC 1320 section 3.4", witness="MD4 digests (NT hashes, msdcc) differ from the standard")
    fn = model.func(MD4, "md4.__init__")
    rep.check(has_stmt(fn, "self._state = [1732584193, 4023233417, 2562383102, 271733878]"), R, site(MD4, "md4.__init__"), "IV", "initial state = 67452301 efcdab89 98badcfe 10325476")
    u = model.unit(MD4)
    rep.check(returns(model.func(MD4, "F")) == ["x & y | ~x & z"], R, site(MD4, "F"), "; ".join(returns(model.func(MD4, "F"))), "F(x,y,z) = xy | (~x)z")
    rep.check(returns(model.func(MD4, "G")) == ["x & y | x & z | y & z"], R, site(MD4, "G"), "; ".join(returns(model.func(MD4, "G"))), "G(x,y,z) = majority")
    rep.check(model.fold(u, ast.Name(id="MASK_32", ctx=ast.Load())) == 0xFFFFFFFF, R, site(MD4, "MASK_32"), "2**32-1", "32-bit mask")
    fn = model.func(MD4, "md4._process")
    t = qtext(fn)
    rep.check("X = struct.unpack('<16I', block)" in t, R, site(MD4, "md4._process"), "'<16I'", "block read as 16 little-endian words")
    loops = [n for n in walk_no_nested(fn) if isinstance(n, ast.For)]
    want = [("self._round1", "t = state[a] + F(state[b], state[c], state[d]) + X[k] & MASK_32"),
            ("self._round2", "t = state[a] + G(state[b], state[c], state[d]) + X[k] + 1518500249 & MASK_32"),
            ("self._round3", "t = state[a] + (state[b] ^ state[c] ^ state[d]) + X[k] + 1859775393 & MASK_32")]
    for (tbl, stmt), lp in zip(want, loops[:3]):
        body = [ast.unparse(x) for x in lp.body]
        ok = ast.unparse(lp.iter) == tbl and body == [stmt, "state[a] = (t << s & MASK_32) + (t >> 32 - s)"]
        rep.check(ok, R, site(MD4, "md4._process"), f"{ast.unparse(lp.iter)}: {' | '.join(body)}"[:200], f"round over {tbl}: mixing function, message word, additive constant, left rotation by s",
                  witness="MD4 round uses the wrong function / constant / rotation")
    rep.check(len(loops) == 4 and ast.unparse(loops[3].body[0]) == "orig[i] = orig[i] + state[i] & MASK_32", R, site(MD4, "md4._process"), "feed-forward", "state += working registers (mod 2**32)")
    # bookkeeping: copy carries every field __init__ sets
    init = model.func(MD4, "md4.__init__")
    fields = {ast.unparse(t_)[5:] for n in walk_no_nested(init) if isinstance(n, ast.Assign) for t_ in n.targets if ast.unparse(t_).startswith("self.")}
    cp = model.func(MD4, "md4.copy")
    copied = {ast.unparse(t_).split(".", 1)[1] for n in walk_no_nested(cp) if isinstance(n, ast.Assign) for t_ in n.targets if isinstance(t_, ast.Attribute) and ast.unparse(t_.value) == "other"}
    ctor = [n for n in walk_no_nested(cp) if isinstance(n, ast.Assign) and ast.unparse(n.targets[0]) == "other"]
    via_ctor = set()
    rep.check(fields <= copied, R, site(MD4, "md4.copy"), f"__init__ sets {sorted(fields)}; copy() carries {sorted(copied)}", "copy() carries every field of the hash state (block count, registers, buffer)",
              witness="h.update(64+ bytes); h.copy().digest() != h.digest(): the clone encodes a wrong message length")
    rep.check(has_stmt(cp, "other._state = list(self._state)"), R, site(MD4, "md4.copy"), "other._state = list(self._state)", "register list is copied, not shared")
    dg = model.func(MD4, "md4.digest")
    t = qtext(dg)
    rep.check("orig = list(self._state)" in t and "self._state = orig" in t, R, site(MD4, "md4.digest"), "state saved and restored", "digest() leaves the object usable for further update()",
              witness="digest() then update() continues from the padded state")
    rep.check("msglen = self._count * 512 + len(buf) * 8" in t, R, site(MD4, "md4.digest"), "msglen = count*512 + len(buf)*8", "message length in bits")
    rep.check(t.loose("b'\\x00' * ((119 - len(buf)) % 64)") and t.loose("struct.pack('<2I', msglen & MASK_32, msglen >> 32 & MASK_32)"), R, site(MD4, "md4.digest"),
              "padding: 0x80, zeros to 56 mod 64, 64-bit little-endian length", "RFC 1320 padding")
    rep.check("out = struct.pack('<4I', *self._state)" in t, R, site(MD4, "md4.digest"), "'<4I'", "digest = registers little-endian")
    up = model.func(MD4, "md4.update")
    t = qtext(up)
    rep.check("next = idx + 64" in t and "if next <= end:" in t and "self._count += 1" in t and "self._buf = content[idx:]" in t and "content = buf + content" in t, R, site(MD4, "md4.update"),
              "64-byte blocks; count += 1; remainder buffered", "incremental update processes whole blocks and buffers the rest")
    from pv.q import must_assign
    ok, bad = must_assign(up, "self._buf")
    rep.check(ok, R, site(MD4, "md4.update") + " buffer", f"returns reached without storing the remainder: lines {bad}" if bad else "self._buf stored before every return",
              "every completed update() replaces the buffer with the (possibly empty) remainder: a remainder left from the previous call would be hashed twice",
              witness="md4(): update(10 bytes); update(54 bytes); digest() differs from md4(the 64 bytes).digest() -- the stale 10 bytes are processed again")
    for attr, val in (("digest_size", 16), ("block_size", 64)):
        rep.check(model.class_const(c, attr) == val, R, site(MD4, "md4." + attr), str(val), f"{attr} == {val}")


# ----------------------------------------------------------------------------- Salsa / scrypt
SAL = "passlib.crypto.scrypt._salsa"
SB = "passlib.crypto.scrypt._builtin"
SI = "passlib.crypto.scrypt"


def rule_scrypt(model, rep):
    R = "C11.d-salsa-scrypt"
    fn = model.func(SAL, "salsa20")
    loops = [n for n in walk_no_nested(fn) if isinstance(n, ast.While)]
    ok = len(loops) == 1 and ast.unparse(loops[0].test) == "i < 4"
    rep.check(ok, R, site(SAL, "salsa20"), ast.unparse(loops[0].test) if loops else "<none>", "Salsa20/8: 4 double rounds")
    if ok:
        body = [s for s in loops[0].body if not (isinstance(s, ast.AugAssign) and ast.unparse(s.target) == "i")]
        ops = refs.salsa_double_round()
        good = len(body) == 64
        bad = []
        for n, (tgt, a, b, rot) in enumerate(ops):
            if 2 * n + 1 >= len(body):
                good = False
                break
            s1, s2 = ast.unparse(body[2 * n]), ast.unparse(body[2 * n + 1])
            w1 = {f"t = v{a} + v{b} & 4294967295", f"t = v{b} + v{a} & 4294967295"}
            mask = (1 << (32 - rot)) - 1
            w2 = f"v{tgt} ^= (t & {mask}) << {rot} | t >> {32 - rot}"
            if s1 not in w1 or s2 != w2:
                bad.append((n, s1, s2))
        rep.check(good and not bad, R, site(SAL, "salsa20"), f"{len(body) // 2} operations; first deviation: {bad[0] if bad else None}",
                  "the 32 add-rotate-xor operations follow the column-round / row-round schedule with rotations 7, 9, 13, 18 and masks 2**(32-rot)-1",
                  witness="scrypt builtin backend output differs from RFC 7914 for every input")
    fin = [ast.unparse(s) for s in fn.body if isinstance(s, ast.Assign) and ast.unparse(s.targets[0]).startswith("b") and qtext(s).loose("+ v")]
    rep.check(fin == [f"b{i} = b{i} + v{i} & 4294967295" for i in range(16)], R, site(SAL, "salsa20"), f"{len(fin)} feed-forward statements", "output = input + rounds (mod 2**32) per word")
    # scrypt engine sizes
    fn = model.func(SB, "ScryptEngine.__init__")
    for stmt, why in (("self.smix_bytes = r << 7", "block = 128*r bytes"), ("self.iv_bytes = self.smix_bytes * p", "B = p blocks"), ("self.bmix_len = bmix_len = r << 5", "32*r words per block"),
                      ("self.bmix_half_len = r << 4", "16*r words per half"), ("self.bmix_struct = struct.Struct('<' + str(bmix_len) + 'I')", "little-endian words")):
        rep.check(has_stmt(fn, stmt), R, site(SB, "ScryptEngine.__init__"), stmt, why, witness="scrypt block geometry wrong for some r/p")
    rep.check("integerify = operator.itemgetter(-16)" in qtext(fn), R, site(SB, "ScryptEngine.__init__"), "itemgetter(-16)", "Integerify reads the first word of the last 64-byte sub-block")
    fn = model.func(SB, "ScryptEngine.run")
    t = qtext(fn)
    rep.check("input = pbkdf2_hmac('sha256', secret, salt, rounds=1, keylen=iv_bytes)" in t and returns(fn) == ["pbkdf2_hmac('sha256', secret, output, rounds=1, keylen=keylen)"], R,
              site(SB, "ScryptEngine.run"), "PBKDF2-SHA256 in and out", "B = PBKDF2(P, S, 1, p*128*r); DK = PBKDF2(P, B', 1, dkLen)")
    rep.check("smix(input[offset:offset + smix_bytes]) for offset in range(0, iv_bytes, smix_bytes)" in t, R, site(SB, "ScryptEngine.run"), "p independent smix blocks", "each 128*r block mixed separately")
    fn = model.func(SB, "ScryptEngine.smix")
    t = qtext(fn)
    rep.check("n_mask = n - 1" in t and "j = integerify(buffer) & n_mask" in t and "result = tuple((a ^ b for a, b in zip(buffer, get_v_elem(j))))" in t, R, site(SB, "ScryptEngine.smix"),
              "j = Integerify(X) mod N; X = BlockMix(X xor V[j])", "ROMix second loop")
    whiles = [ast.unparse(n.test) for n in ast.walk(fn) if isinstance(n, ast.While)]
    rep.check(whiles.count("i < n") == 2, R, site(SB, "ScryptEngine.smix"), str(whiles), "both ROMix loops run N times")
    fn = model.func(SB, "ScryptEngine.bmix")
    t = qtext(fn)
    rep.check("tmp = source[-16:]" in t and "while j < half:" in t and "target[j:jn] = tmp = salsa20((a ^ b for a, b in zip(tmp, siter)))" in t and
              "target[half + j:half + jn] = tmp = salsa20((a ^ b for a, b in zip(tmp, siter)))" in t, R, site(SB, "ScryptEngine.bmix"), "even blocks first half, odd blocks second half",
              "BlockMix: X = last block; Y_i = Salsa(X xor B_i); output Y_0,Y_2,...,Y_1,Y_3,...")
    # validate()
    fn = model.func(SI, "validate")
    for test in ("r < 1", "p < 1", "r * p > MAX_RP", "n < 2 or n & n - 1"):
        rep.check(has_if(fn, test), R, site(SI, "validate"), test, f"parameter check `{test}` raises ValueError", witness="invalid scrypt parameters accepted (or valid ones refused)")
    bound = [n for n in walk_no_nested(fn) if isinstance(n, ast.If) and n.body and isinstance(n.body[-1], ast.Raise) and "16 * r" in ast.unparse(n.test) and "n" in [x.id for x in ast.walk(n.test) if isinstance(x, ast.Name)]]
    rep.check(bool(bound), R, site(SI, "validate") + " n bound", ast.unparse(bound[0].test) if bound else "no check of n against 2**(16*r)",
              "N < 2**(16*r) (RFC 7914 section 2; stated in validate()'s own docstring) is enforced",
              witness="validate(65536, 1, 1) is True: the builtin backend computes a key and hash.scrypt.using(rounds=16, block_size=1) emits a hash that hashlib.scrypt (stdlib backend) refuses to verify")
    u = model.unit(SI)
    rep.check(model.fold(u, ast.Name(id="MAX_RP", ctx=ast.Load())) == (1 << 30) - 1, R, site(SI, "MAX_RP"), "2**30-1", "r*p limit")
    rep.check(model.fold(u, ast.Name(id="MAX_KEYLEN", ctx=ast.Load())) == ((1 << 32) - 1) * 32, R, site(SI, "MAX_KEYLEN"), "(2**32-1)*32", "dkLen limit")
    fn = model.func(SI, "scrypt")
    rep.check(has_if(fn, "keylen < 1") and has_if(fn, "keylen > MAX_KEYLEN") and has_stmt(fn, "validate(n, r, p)"), R, site(SI, "scrypt"), "validate; keylen bounds", "frontend validates parameters and key length")


# ----------------------------------------------------------------------------- SASLprep
UT = "passlib.utils"


def rule_saslprep(model, rep):
    R = "C11.e-saslprep"
    fn = model.func(UT, "saslprep")
    s = site(UT, "saslprep")
    body = fn.body
    texts = [ast.unparse(x) for x in body]
    i_map = next((i for i, t in enumerate(texts) if t.startswith("data = ''.join((_USPACE if stringprep.in_table_c12(c) else c for c in source if not stringprep.in_table_b1(c)))")), None)
    i_nfkc = next((i for i, t in enumerate(texts) if t in ("data = unicodedata.normalize('NFKC', data)", "data = unicodedata.ucd_3_2_0.normalize('NFKC', data)", "data = ucd_3_2_0.normalize('NFKC', data)")), None)
    i_bidi = next((i for i, t in enumerate(texts) if t.startswith("if is_ral_char(")), None)
    rep.check(i_map is not None, R, s, "mapping step", "mapping: B.1 characters removed, C.1.2 spaces -> U+0020")
    rep.check(i_nfkc is not None and i_map is not None and i_map < i_nfkc, R, s, "NFKC after mapping", "normalisation with NFKC after mapping")
    # stringprep (RFC 3454) is defined over Unicode 3.2: the tables of the stdlib `stringprep` module are 3.2 tables, and the normalisation must
    # be the 3.2 one too (unicodedata.ucd_3_2_0), otherwise code points unassigned in 3.2 are folded into old ones before the A.1 check sees them
    rep.check(i_nfkc is not None and "ucd_3_2_0" in texts[i_nfkc], R, s + " unicode 3.2", texts[i_nfkc] if i_nfkc is not None else "<none>",
              "NFKC is computed with the Unicode 3.2 database (unicodedata.ucd_3_2_0), as RFC 3454 / 4013 require",
              witness="saslprep('\\u1d2c') returns 'A' (U+1D2C is unassigned in Unicode 3.2 and must be refused, as U+0221 is); 667 single code points differ from the RFC")
    bidi = body[i_bidi] if i_bidi is not None else None
    ok = bidi is not None and ast.unparse(bidi.test) == "is_ral_char(data[0])" and "if not is_ral_char(data[-1]):" in qtext(bidi) and i_nfkc is not None and i_bidi > i_nfkc
    rep.check(ok, R, s, ast.unparse(bidi.test) if bidi is not None else "<none>", "bidi rule (first and last character RandALCat) is evaluated on the mapped and normalised text",
              witness="right-to-left passwords with a leading/trailing soft hyphen or zero-width space are wrongly rejected; some compatibility characters wrongly accepted")
    rep.check(has_stmt(fn, "is_ral_char = stringprep.in_table_d1") and "is_forbidden_bidi_char = stringprep.in_table_d2" in qtext(fn), R, s, "D.1 / D.2", "RandALCat = D.1; with it LCat (D.2) is forbidden")
    # prohibited tables
    tabs = set()
    for n in ast.walk(fn):
        if isinstance(n, ast.Attribute) and ast.unparse(n.value) == "stringprep" and n.attr.startswith("in_table_"):
            tabs.add(n.attr[9:])
    need = {"a1", "b1", "c12", "c21_c22", "c3", "c4", "c5", "c6", "c7", "c8", "c9", "d1", "d2"}
    rep.check(need <= tabs, R, s, f"tables used: {sorted(tabs)}", "prohibited output covers A.1, C.2.1/2.2, C.3-C.9 (RFC 4013 section 2.3)", witness="a prohibited character class is accepted")
    loop = [n for n in walk_no_nested(fn) if isinstance(n, ast.For) and ast.unparse(n.iter) == "data"]
    rep.check(len(loop) == 1 and qtext(loop[0]).loose("for func, err_msg in forbidden_:") and qtext(loop[0]).loose("raise ValueError"), R, s, "for c in data: check all", "every character of the result is checked against every table")
    rep.check(returns(fn)[-1] == "data" and has_if(fn, "not data", ["return _UEMPTY"]), R, s, "return data", "result is the mapped+normalised string")
    rep.check(has_if(fn, "not isinstance(source, str)"), R, s, "TypeError for non-str", "input must be text")


def run(model, rep):
    rep.explanation = __doc__
    rep.assumptions = ["pi digits are computed in the checker with Machin's formula on Python integers", "FIPS 46-3 S-boxes and RFC 1320 / Salsa20 schedules are typed from the standards",
                       "stringprep / unicodedata / hashlib are the standard library's"]
    rule_blowfish(model, rep)
    rule_des(model, rep)
    rule_md4(model, rep)
    rule_scrypt(model, rep)
    prim.rule_hmac(model, rep, "C11.f-hmac-pbkdf")
    prim.rule_pbkdf(model, rep, "C11.f-hmac-pbkdf")
    prim.rule_hash_names(model, rep, "C11.g-digest-names")
    from . import shared as _shared
    _shared.rule_len_after_encode(model, rep, "C11.f-hmac-pbkdf", ("passlib.crypto",), minimum=3)
    prim.rule_name_cache(model, rep, "C11.h-name-cache-owner")
    prim.rule_hash_const(model, rep, "C11.g-digest-names")
    # "for every digest": lookup_hash() resolves digests hashlib lacks (md4 under OpenSSL 3) to the built-in constructor and reports them as
    # supported; compile_hmac() and pbkdf1() use that constructor -- pbkdf2_hmac() must not depend on hashlib knowing the name
    D = "passlib.crypto.digest"
    fn = model.func(D, "pbkdf2_hmac")
    calls = [c for c in walk_no_nested(fn) if isinstance(c, ast.Call) and ast.unparse(c.func) == "hashlib.pbkdf2_hmac"]
    uses_const = any(isinstance(n, ast.Attribute) and n.attr == "const" for n in ast.walk(fn)) or any(isinstance(c, ast.Call) and ast.unparse(c.func) == "compile_hmac" for c in walk_no_nested(fn))
    if calls and not uses_const:
        rep.violation("C11.f-hmac-pbkdf", f"{D}:pbkdf2_hmac fallback", f"return {ast.unparse(calls[0])}  # by name only; the constructor lookup_hash() resolved is never used",
                      "PBKDF2 is delegated to hashlib by digest *name*; a digest that exists only as passlib's built-in constructor (md4 where OpenSSL dropped it) has no code path",
                      witness="pbkdf2_hmac('md4', b'secret', b'salt', 62, 40) raises UnsupportedDigestmodError although lookup_hash('md4').supported is True and compile_hmac()/pbkdf1() work with md4")
    else:
        rep.hold("C11.f-hmac-pbkdf", f"{D}:pbkdf2_hmac fallback", "a constructor-based path exists")
    rule_saslprep(model, rep)
