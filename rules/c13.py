"""C13 -- one-time codes follow RFC 4226 / RFC 6238.

Decided: the truncation kernel and the time->counter arithmetic have exactly the RFC's shape:
counter packed as unsigned 64-bit big-endian; HMAC keyed with the raw key and the object's
algorithm; offset = low nibble of the last digest byte; 4 bytes big-endian masked to 31 bits;
zero-padded decimal, last `digits` digits; counter = time // period; validity interval
[counter*period, (counter+1)*period); digits range 6..10; date-times converted through their UTC
time tuple; key text cleaned of blanks/dashes/padding *before* the base32 / hex branch, hex decoded
case-insensitively; HMAC's key preparation (RFC 2104) hashes only keys longer than the block.
Not decided: HMAC/SHA themselves (hashlib), datetime arithmetic of the standard library."""
from __future__ import annotations

import ast

from pv.q import text as qtext
from pv.model import AnalysisError, walk_no_nested, params, UNKNOWN
from pv.norm import Normalizer, Poly, single_defs
from pv.q import has_stmt, has_if, find_if, returns, body_texts, order_of

T = "passlib.totp"


def site(f, u=T):
    return f"{u}:{f}"


def rule_kernel(model, rep):
    R = "C13.a-truncation-kernel"
    unit = model.unit(T)
    fn = model.func(T, "TOTP._generate")
    s = site("TOTP._generate")
    # struct formats
    for name, fmt, meth in (("_pack_uint64", ">Q", "pack"), ("_unpack_uint32", ">I", "unpack")):
        v = unit.assigns.get(name)
        ok = bool(v) and isinstance(v[0], ast.Attribute) and v[0].attr == meth and isinstance(v[0].value, ast.Call) and \
            model.dotted(unit, v[0].value.func) == "struct.Struct" and model.fold(unit, v[0].value.args[0]) == fmt
        rep.check(ok, R, site(name), ast.unparse(v[0]) if v else "<none>", f"{name} = struct.Struct({fmt!r}).{meth}",
                  witness="counter / truncated value use the wrong width or byte order: every token differs from the RFC's")
    sd = single_defs(fn)
    t = qtext(fn)
    rep.check("keyed_hmac = self._keyed_hmac = compile_hmac(self.alg, self.key)" in t, R, s, "compile_hmac(self.alg, self.key)", "HMAC is keyed with the object's algorithm and raw key")
    rep.check(has_stmt(fn, "digest = keyed_hmac(_pack_uint64(counter))"), R, s, "digest = keyed_hmac(_pack_uint64(counter))", "HMAC input is the 8-byte big-endian counter")
    # offset
    off = sd.get("offset")
    norm = Normalizer()
    ok = off is not None and isinstance(off, ast.BinOp) and isinstance(off.op, ast.BitAnd) and ast.unparse(off.left) == "digest[-1]" and norm.poly(off.right).value() == 15
    rep.check(ok, R, s, f"offset = {ast.unparse(off) if off is not None else '<none>'}", "offset = low 4 bits of the last digest byte (RFC 4226 5.3)",
              witness="dynamic truncation reads the wrong window for some digests")
    val = sd.get("value")
    ok = False
    if isinstance(val, ast.BinOp) and isinstance(val.op, ast.BitAnd):
        ok = ast.unparse(val.left) == "_unpack_uint32(digest[offset:offset + 4])[0]" and norm.poly(val.right).value() == 0x7FFFFFFF
    rep.check(ok, R, s, f"value = {ast.unparse(val) if val is not None else '<none>'}", "value = 4 bytes at offset, big-endian, top bit cleared",
              witness="tokens differ when the 32-bit word has its top bit set, or the slice is not 4 bytes")
    rets = returns(fn)
    rep.check(rets == ["('%0*d' % (digits, value))[-digits:]"], R, s, "; ".join(rets), "token = decimal value zero-padded to `digits`, last `digits` characters (value mod 10**digits)",
              witness="leading zeros dropped / wrong number of digits for large values")
    rep.check(has_stmt(fn, "digits = self.digits"), R, s, "digits = self.digits", "digit count taken from the object")
    # time arithmetic
    for q, want in (("TOTP._time_to_counter", "time // self.period"), ("TOTP._counter_to_time", "counter * self.period")):
        rep.check(returns(model.func(T, q)) == [want], R, site(q), "; ".join(returns(model.func(T, q))), f"{q.split('.')[-1]} == {want}",
                  witness="counter is not floor(time/period): tokens are off by one step near period boundaries")
    fn = model.func(T, "TOTP.generate")
    t = body_texts(fn)
    rep.check(t[:2] == ["time = self.normalize_time(time)", "counter = self._time_to_counter(time)"] and "token = self._generate(counter)" in t and
              t[-1] == "return TotpToken(self, token, counter)", R, site("TOTP.generate"), " | ".join(t), "generate(): normalise time, derive counter, compute token")
    rep.check(has_if(fn, "counter < 0", ["raise ValueError('timestamp must be >= 0')"]), R, site("TOTP.generate"), "counter < 0 -> ValueError", "negative times are refused")
    for q, want in (("TotpToken.start_time", "self.totp._counter_to_time(self.counter)"), ("TotpToken.expire_time", "self.totp._counter_to_time(self.counter + 1)"),
                    ("TotpMatch.expire_time", "self.totp._counter_to_time(self.counter + 1)"), ("TotpMatch.expected_counter", "self.totp._time_to_counter(self.time)")):
        rep.check(returns(model.func(T, q)) == [want], R, site(q), "; ".join(returns(model.func(T, q))), f"{q} == {want}",
                  witness="reported validity interval is shifted by one period")
    # digits range
    fn = model.func(T, "TOTP.__init__")
    rep.check(has_if(fn, "digits < 6 or digits > 10", ["raise ValueError('digits must in range(6,11)')"]), R, site("TOTP.__init__"), "6 <= digits <= 10", "digit count restricted to 6..10 (31-bit value has 10 digits)",
              witness="digits=11 accepted: the token can never have 11 significant digits")
    rep.check(has_if(fn, "period is not None") and "self._check_serial(period, 'period', minval=1)" in qtext(fn), R, site("TOTP.__init__"), "period >= 1", "period validated as integer >= 1")
    rep.check("info = lookup_hash(alg or self.alg)" in qtext(fn) and "self.alg = info.name" in qtext(fn), R, site("TOTP.__init__"), "alg normalised through lookup_hash", "algorithm name canonicalised")


def rule_time(model, rep):
    R = "C13.b-time-normalisation"
    fn = model.func(T, "TOTP.normalize_time")
    s = site("TOTP.normalize_time")
    rep.check(has_if(fn, "isinstance(time, int)", ["return time"]), R, s, "int -> as is", "integer times are used as given")
    rep.check(has_if(fn, "isinstance(time, float)", ["return int(time)"]), R, s, "float -> int()", "float times are truncated")
    rep.check(has_if(fn, "time is None", ["return int(cls.now())"]), R, s, "None -> now()", "missing time means now")
    rep.check(has_if(fn, "hasattr(time, 'utctimetuple')", ["return calendar.timegm(time.utctimetuple())"]), R, s, "datetime -> calendar.timegm(time.utctimetuple())",
              "date-times are converted through their *UTC* time tuple (aware date-times with an offset map to the right instant)",
              witness="an aware datetime at +05:30 yields the counter of the wrong instant: token and validity interval are off by the zone offset")


def rule_keys(model, rep):
    R = "C13.c-key-decoding"
    fn = model.func(T, "_decode_bytes")
    s = site("_decode_bytes")
    unit = model.unit(T)
    pat = unit.assigns.get("_clean_re")
    ok = bool(pat) and isinstance(pat[0], ast.Call) and model.fold(unit, pat[0].args[0]) == "\\s|[-=]"
    rep.check(ok, R, site("_clean_re"), ast.unparse(pat[0]) if pat else "<none>", "separator pattern removes whitespace, '-' and '='",
              witness="keys typed with spaces or dashes (the library's own pretty_key() output) are refused")
    order = order_of(fn, ["key = to_unicode(key, param='key')", "key = _clean_re.sub('', key).encode('utf-8')"])
    hexif = find_if(fn, "format == 'hex' or format == 'base16'")
    b32if = find_if(fn, "format == 'base32'")
    seq = [ast.unparse(x) for x in fn.body]
    clean_i = next((i for i, x in enumerate(seq) if x == "key = _clean_re.sub('', key).encode('utf-8')"), None)
    hex_i = next((i for i, x in enumerate(fn.body) if x in hexif), None)
    b32_i = next((i for i, x in enumerate(fn.body) if x in b32if), None)
    rep.check(clean_i is not None and hex_i is not None and b32_i is not None and clean_i < hex_i and clean_i < b32_i, R, s,
              f"clean@{clean_i} hex@{hex_i} base32@{b32_i}", "separators are stripped before *both* the hex and the base32 branch",
              witness="TOTP('e01c-630c-2184-b076-ce99', 'hex') raises binascii.Error although pretty_key(format='hex') produced that text")
    if hexif:
        rep.check([ast.unparse(x) for x in hexif[0].body] == ["return base64.b16decode(key.upper())"], R, s, ast.unparse(hexif[0].body[0]), "hex keys are decoded case-insensitively")
    if b32if:
        rep.check([ast.unparse(x) for x in b32if[0].body] == ["return b32decode(key)"], R, s, ast.unparse(b32if[0].body[0]), "base32 keys go through the typo-correcting b32decode")
    rep.check(has_if(fn, "format == 'raw'"), R, s, "raw branch", "raw keys are passed through (bytes only)")
    # b32decode: translate (typo correction 8->B 0->O) applies to bytes input too, upper-cased, padded
    B = "passlib.utils.binary"
    fn = model.func(B, "b32decode")
    t = qtext(fn)
    tr = [n for n in walk_no_nested(fn) if isinstance(n, ast.Call) and isinstance(n.func, ast.Attribute) and n.func.attr == "translate"]
    unitb = model.unit(B)
    ok = len(tr) == 1 and unitb.enclosing(tr[0], ast.If) is None
    rep.check(ok, R, site("b32decode", B), ast.unparse(tr[0])[:60] if tr else "<none>", "typo correction (8->B, 0->O) is applied unconditionally, to text and bytes input alike",
              witness="TOTP(key='8080 8080 8080 8080') fails: TOTP passes bytes, and only str input is corrected")
    mp = unitb.assigns.get("_b32_translate")
    v = UNKNOWN
    if mp and isinstance(mp[0], ast.Call) and ast.unparse(mp[0].func) == "compile_byte_translation" and mp[0].args:
        v = model.fold(unitb, mp[0].args[0])
    rep.check(v == {"8": "B", "0": "O"}, R, site("_b32_translate", B), repr(v), "typo map sends 8 to B and 0 to O (characters that are not in the base32 alphabet)",
              witness="mistyped base32 keys are decoded to a different key / refused")
    rep.check("source.upper()" in t or "True" in t, R, site("b32decode", B), "case-insensitive", "base32 decoding is case-insensitive")
    # key properties
    rep.check(returns(model.func(T, "TOTP.base32_key")) == ["b32encode(self.key)"], R, site("TOTP.base32_key"), "b32encode(self.key)", "base32_key encodes the raw key")
    rep.check(returns(model.func(T, "TOTP.hex_key")) == ["bascii_to_str(base64.b16encode(self.key)).lower()"], R, site("TOTP.hex_key"), "hex lower", "hex_key is the lower-case hex of the raw key")


def rule_key_caches(model, rep):
    """the token is computed from a keyed HMAC compiled once and cached on the object; every attribute that caches something derived from
    `self.key` must be reset by the public `key` setter, or tokens keep coming from the previous key"""
    from pv.q import must_assign
    R = "C13.e-key-derived-caches"
    cd = model.cls(T, "TOTP")
    caches = {}
    for fn in [x for x in cd.body if isinstance(x, ast.FunctionDef)]:
        for a in walk_no_nested(fn):
            if isinstance(a, ast.Assign) and any(isinstance(n, ast.Attribute) and ast.unparse(n) == "self.key" for n in ast.walk(a.value)):
                for t in a.targets:
                    if isinstance(t, ast.Attribute) and ast.unparse(t.value) == "self" and t.attr.startswith("_") and t.attr != "_key":
                        caches[t.attr] = f"{fn.name}: {ast.unparse(a)[:70]}"
    setter = next((x for x in cd.body if isinstance(x, ast.FunctionDef) and x.name == "key" and any(ast.unparse(d) == "key.setter" for d in x.decorator_list)), None)
    if setter is None or not caches:
        rep.undecided(R, site("TOTP.key.setter"), f"setter / key-derived caches not found (caches={sorted(caches)})")
        return
    for attr, where in sorted(caches.items()):
        ok, bad = must_assign(setter, f"self.{attr}")
        rep.check(ok, R, site("TOTP.key.setter") + f" {attr}", f"{attr} cached in {where}; setter returns without resetting it at lines {bad}" if bad else f"{attr} reset ({where})",
                  f"assigning a new key resets the cache `{attr}` derived from the old one",
                  witness="otp = TOTP(key1); otp.generate(t); otp.key = key2; otp.generate(t).token is still the RFC 6238 value for key1")
    rep.minimum(R, 2)


def rule_hmac(model, rep):
    """RFC 2104 key preparation in passlib.crypto.digest.compile_hmac (TOTP's HMAC)"""
    from . import prim
    prim.rule_hmac(model, rep, "C13.d-hmac-key-prep")


def run(model, rep):
    rep.explanation = __doc__
    rule_kernel(model, rep)
    rule_digest_size_agreement(model, rep)
    rule_time(model, rep)
    rule_keys(model, rep)
    rule_key_caches(model, rep)
    rule_hmac(model, rep)


def rule_digest_size_agreement(model, rep, R="C13.a-truncation-kernel"):
    """the dynamic truncation reads 4 bytes at an offset of up to 15: the digest must have at least 19 (RFC 4226: 20) bytes. The constructor is
    where an algorithm is accepted or refused, so its lower bound on the digest size has to cover what `_generate()` reads"""
    init = model.func(T, "TOTP.__init__")
    unit = model.unit(T)
    guards = [g for g in walk_no_nested(init) if isinstance(g, ast.If) and isinstance(g.test, ast.Compare) and len(g.test.ops) == 1 and ast.unparse(g.test.left) == "digest_size"
              and isinstance(g.test.ops[0], (ast.Lt, ast.LtE)) and g.body and isinstance(g.body[-1], ast.Raise)]
    s = site("TOTP.__init__") + " digest size"
    if len(guards) != 1:
        rep.undecided(R, s, f"{len(guards)} lower bounds on digest_size in the constructor")
        return
    k = model.fold(unit, guards[0].test.comparators[0])
    least = (k if isinstance(guards[0].test.ops[0], ast.Lt) else k + 1) if isinstance(k, int) else None      # smallest accepted size
    need = 0xF + 4
    rep.check(least is not None and least >= need, R, s, f"`{ast.unparse(guards[0].test)}` accepts digests of {least} bytes and more; _generate() reads digest[offset:offset + 4] with offset <= 15",
              f"every accepted algorithm has a digest of at least {need} bytes (what the truncation reads)",
              witness="TOTP(key, alg='md5') and from_uri('...&algorithm=MD5') are accepted, then every generate() / match() raises AssertionError (struct.error or a short read under python -O)")
