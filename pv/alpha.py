"""Alpha-normalisation of function locals against the confirmed reference tree.

The rules state facts with the local variable names of the tree on which they were confirmed.  A renamed
local is not a behaviour change, so before any rule looks at a function its locals are mapped back to the
reference names: anchors/locals.json (generated from the confirmed tree by tools/gen_anchors.py, committed)
lists, per function, the locals in order of first binding.  Names present on both sides stay; a current name
the reference does not know is mapped to the reference name the current function does not have, pairing the
leftovers in order of first binding.  If the leftover counts differ (a local was added or removed) nothing
is renamed and the rules see the function as it is."""
from __future__ import annotations

import ast
import json
import os

ANCHORS = os.path.join(os.path.dirname(os.path.dirname(os.path.abspath(__file__))), "anchors", "locals.json")
_SCOPES = (ast.FunctionDef, ast.AsyncFunctionDef, ast.Lambda, ast.ClassDef)


def function_index(tree):
    """[(key, FunctionDef)] for every def in the module, key = dotted path + '#occurrence'"""
    out, seen = [], {}

    def rec(node, path):
        for c in ast.iter_child_nodes(node):
            if isinstance(c, (ast.FunctionDef, ast.AsyncFunctionDef)):
                q = ".".join(path + [c.name])
                k = seen.get(q, 0)
                seen[q] = k + 1
                out.append((f"{q}#{k}", c))
                rec(c, path + [c.name])
            elif isinstance(c, ast.ClassDef):
                rec(c, path + [c.name])
            else:
                rec(c, path)
    rec(tree, [])
    return out


def _walk_scope(fn):
    """nodes of fn's own scope in source order (nested defs / lambdas / classes are not entered)"""
    def rec(node):
        for c in ast.iter_child_nodes(node):
            if isinstance(c, _SCOPES):
                yield c  # the def itself (binds a name) but not its body
                continue
            yield c
            yield from rec(c)
    for st in fn.body:
        yield st
        if not isinstance(st, _SCOPES):
            yield from rec(st)


def _free_names(scope):
    """names a nested scope uses without binding them itself (its own parameters and plain stores are its own)"""
    if isinstance(scope, ast.ClassDef):
        return {x.id for x in ast.walk(scope) if isinstance(x, ast.Name)}
    a = scope.args
    bound = {x.arg for x in a.posonlyargs + a.args + a.kwonlyargs}
    if a.vararg:
        bound.add(a.vararg.arg)
    if a.kwarg:
        bound.add(a.kwarg.arg)
    used, nonlocal_ = set(), set()
    body = scope.body if isinstance(scope.body, list) else [scope.body]
    for st in body:
        for x in [st] + ([] if isinstance(st, _SCOPES) else list(_walk_scope_node(st))):
            if isinstance(x, ast.Name):
                if isinstance(x.ctx, ast.Store):
                    bound.add(x.id)
                else:
                    used.add(x.id)
            elif isinstance(x, (ast.Global, ast.Nonlocal)):
                nonlocal_ |= set(x.names)
            elif isinstance(x, _SCOPES):
                used |= _free_names(x)
    return (used - bound) | nonlocal_


def _walk_scope_node(node):
    for c in ast.iter_child_nodes(node):
        if isinstance(c, _SCOPES):
            yield c
            continue
        yield c
        yield from _walk_scope_node(c)


def local_order(fn):
    """renamable locals of fn in order of first binding"""
    a = fn.args
    params = {x.arg for x in a.posonlyargs + a.args + a.kwonlyargs}
    if a.vararg:
        params.add(a.vararg.arg)
    if a.kwarg:
        params.add(a.kwarg.arg)
    excluded = set(params)
    order = []
    for n in _walk_scope(fn):
        if isinstance(n, (ast.Global, ast.Nonlocal)):
            excluded |= set(n.names)
        elif isinstance(n, (ast.FunctionDef, ast.AsyncFunctionDef, ast.ClassDef)):
            excluded.add(n.name)
            excluded |= _free_names(n)  # possibly closed over
        elif isinstance(n, ast.Lambda):
            excluded |= _free_names(n)
        elif isinstance(n, (ast.Import, ast.ImportFrom)):
            for al in n.names:
                excluded.add((al.asname or al.name).split(".")[0])
        elif isinstance(n, ast.ExceptHandler) and n.name:
            excluded.add(n.name)
        elif isinstance(n, ast.Name) and isinstance(n.ctx, ast.Store):
            if n.id not in order:
                order.append(n.id)
        elif isinstance(n, ast.Call) and isinstance(n.func, ast.Name) and n.func.id in ("locals", "vars", "eval", "exec"):
            return []
    return [x for x in order if x not in excluded and not (x.startswith("__") and x.endswith("__"))]


def anchors_for(tree):
    return {k: local_order(fn) for k, fn in function_index(tree)}


class _Rename(ast.NodeVisitor):
    def __init__(self, m):
        self.m = m

    def visit(self, node):
        if isinstance(node, _SCOPES):
            return
        if isinstance(node, ast.Name) and node.id in self.m:
            node.id = self.m[node.id]
        for c in ast.iter_child_nodes(node):
            self.visit(c)


def apply(tree, ref):
    """rename locals of every function in `tree` back to the reference names; returns number of names mapped"""
    n = 0
    if not ref:
        return 0
    for key, fn in function_index(tree):
        want = ref.get(key)
        if want is None:
            continue
        have = local_order(fn)
        if have == want:
            continue
        extra = [x for x in have if x not in want]
        missing = [x for x in want if x not in have]
        if not extra or len(extra) != len(missing):
            continue
        # a mapped name must not collide with any other name used in the function
        used = {a.arg for a in fn.args.posonlyargs + fn.args.args + fn.args.kwonlyargs}
        for x in _walk_scope(fn):
            if isinstance(x, ast.Name):
                used.add(x.id)
            elif isinstance(x, _SCOPES):
                used |= _free_names(x)
                if not isinstance(x, ast.Lambda):
                    used.add(x.name)
        if any(m in used for m in missing):
            continue
        m = dict(zip(extra, missing))
        r = _Rename(m)
        for st in fn.body:
            r.visit(st)
        n += len(m)
    return n


_cache = None


def load():
    global _cache
    if _cache is None:
        try:
            _cache = json.load(open(ANCHORS))
        except FileNotFoundError:
            _cache = {}
    return _cache


LOG_RECEIVERS = ("log", "logging", "logger", "_log")
LOG_METHODS = ("debug", "info", "warning", "warn", "error", "exception", "critical", "log")


def strip_logging(tree):
    """remove pure logging statements (`log.debug(...)`, `logging.warning(...)`): they never take part in a property,
    and adding or removing one is not a behaviour change the rules should see.  Returns the number removed."""
    n = 0
    for node in ast.walk(tree):
        for fld in ("body", "orelse", "finalbody"):
            blk = getattr(node, fld, None)
            if not isinstance(blk, list) or not blk or not isinstance(blk[0], ast.stmt):
                continue
            keep = []
            for st in blk:
                if isinstance(st, ast.Expr) and isinstance(st.value, ast.Call) and isinstance(st.value.func, ast.Attribute) and st.value.func.attr in LOG_METHODS \
                        and isinstance(st.value.func.value, ast.Name) and st.value.func.value.id in LOG_RECEIVERS:
                    n += 1
                    continue
                keep.append(st)
            if len(keep) != len(blk):
                if not keep:
                    keep = [ast.copy_location(ast.Pass(), blk[0])]
                setattr(node, fld, keep)
    return n


def strip_docstrings(tree):
    """remove the docstring of every function and class (documentation never takes part in a property; rules that count or index the
    statements of a body must not depend on its presence).  A body that consists of its docstring only keeps it.  Returns the number removed."""
    n = 0
    for node in ast.walk(tree):
        if isinstance(node, (ast.FunctionDef, ast.AsyncFunctionDef, ast.ClassDef)):
            b = node.body
            if len(b) > 1 and isinstance(b[0], ast.Expr) and isinstance(b[0].value, ast.Constant) and isinstance(b[0].value.value, str):
                del b[0]
                n += 1
    return n
