"""
passlib.utils.decor -- helper decorators & properties
"""

import types
from functools import update_wrapper, wraps
from warnings import warn

__all__ = [
    "classproperty",
    "hybrid_method",
    "memoize_single_value",
    "memoized_property",
    "deprecated_function",
    "deprecated_method",
]


class classproperty:
    """Function decorator which acts like a combination of classmethod+property (limited to read-only properties)"""

    def __init__(self, func):
        # XXX: rename to .fget to match property?
        self.__func__ = func

    def __get__(self, obj, cls):
        return self.__func__(cls)


class hybrid_method:
    """
    decorator which invokes function with class if called as class method,
    and with object if called at instance level.
    """

    def __init__(self, func):
        # XXX: rename to .fget to match property?
        self.func = func
        update_wrapper(self, func)

    def __get__(self, obj, cls):
        if obj is None:
            obj = cls
        return types.MethodType(self.func, obj)


def memoize_single_value(func):
    """
    decorator for function which takes no args,
    and memoizes result.  exposes a ``.clear_cache`` method
    to clear the cached value.
    """
    cache = {}

    @wraps(func)
    def wrapper():
        try:
            return cache[True]
        except KeyError:
            pass
        value = cache[True] = func()
        return value

    def clear_cache():
        cache.pop(True, None)

    wrapper.clear_cache = clear_cache

    return wrapper


class memoized_property:
    """
    decorator which invokes method once, then replaces attr with result
    """

    def __init__(self, func):
        self.__func__ = func
        self.__name__ = func.__name__
        self.__doc__ = func.__doc__

    def __get__(self, obj, cls):
        if obj is None:
            return self
        value = self.__func__(obj)
        setattr(obj, self.__name__, value)
        return value

    def clear_cache(self, obj):
        """
        class-level helper to clear stored value (if any).

        usage: :samp:`type(self).{attr}.clear_cache(self)`
        """
        obj.__dict__.pop(self.__name__, None)

    def peek_cache(self, obj, default=None):
        """
        class-level helper to peek at stored value

        usage: :samp:`value = type(self).{attr}.clear_cache(self)`
        """
        return obj.__dict__.get(self.__name__, default)


# works but not used
##class memoized_class_property(object):
##    """function decorator which calls function as classmethod,
##    and replaces itself with result for current and all future invocations.
##    """
##    def __init__(self, func):
##        self.im_func = func
##
##    def __get__(self, obj, cls):
##        func = self.im_func
##        value = func(cls)
##        setattr(cls, func.__name__, value)
##        return value
##
##    @property
##    def __func__(self):
##        "py3 compatible alias"


def deprecated_function(
    msg=None,
    deprecated=None,
    removed=None,
    updoc=True,
    replacement=None,
    _is_method=False,
    func_module=None,
):
    """decorator to deprecate a function.

    :arg msg: optional msg, default chosen if omitted
    :kwd deprecated: version when function was first deprecated
    :kwd removed: version when function will be removed
    :kwd replacement: alternate name / instructions for replacing this function.
    :kwd updoc: add notice to docstring (default ``True``)
    """
    if msg is None:
        if _is_method:
            msg = "the method %(mod)s.%(klass)s.%(name)s() is deprecated"
        else:
            msg = "the function %(mod)s.%(name)s() is deprecated"
        if deprecated:
            msg += " as of Passlib %(deprecated)s"
        if removed:
            msg += ", and will be removed in Passlib %(removed)s"
        if replacement:
            msg += f", use {replacement} instead"
        msg += "."

    def build(func):
        is_classmethod = _is_method and isinstance(func, classmethod)
        if is_classmethod:
            func = func.__func__
        opts = dict(
            mod=func_module or func.__module__,
            name=func.__name__,
            deprecated=deprecated,
            removed=removed,
        )
        if _is_method:

            def wrapper(*args, **kwds):
                tmp = opts.copy()
                klass = args[0] if is_classmethod else args[0].__class__
                tmp.update(klass=klass.__name__, mod=klass.__module__)
                warn(msg % tmp, DeprecationWarning, stacklevel=2)
                return func(*args, **kwds)
        else:
            text = msg % opts

            def wrapper(*args, **kwds):
                warn(text, DeprecationWarning, stacklevel=2)
                return func(*args, **kwds)

        update_wrapper(wrapper, func)
        if (
            updoc
            and (deprecated or removed)
            and wrapper.__doc__
            and ".. deprecated::" not in wrapper.__doc__
        ):
            txt = deprecated or ""
            if removed or replacement:
                txt += "\n    "
                if removed:
                    txt += f"and will be removed in version {removed}"
                if replacement:
                    if removed:
                        txt += ", "
                    txt += f"use {replacement} instead"
                txt += "."
            if not wrapper.__doc__.strip(" ").endswith("\n"):
                wrapper.__doc__ += "\n"
            wrapper.__doc__ += f"\n.. deprecated:: {txt}\n"
        if is_classmethod:
            wrapper = classmethod(wrapper)
        return wrapper

    return build


def deprecated_method(
    msg=None, deprecated=None, removed=None, updoc=True, replacement=None
):
    """decorator to deprecate a method.

    :arg msg: optional msg, default chosen if omitted
    :kwd deprecated: version when method was first deprecated
    :kwd removed: version when method will be removed
    :kwd replacement: alternate name / instructions for replacing this method.
    :kwd updoc: add notice to docstring (default ``True``)
    """
    return deprecated_function(
        msg, deprecated, removed, updoc, replacement, _is_method=True
    )
