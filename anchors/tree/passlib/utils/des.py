"""
passlib.utils.des - DEPRECATED LOCATION, WILL BE REMOVED IN 2.0

This has been moved to :mod:`passlib.crypto.des`.
"""

from warnings import warn

from passlib.crypto.des import des_encrypt_block, des_encrypt_int_block, expand_des_key
from passlib.utils.decor import deprecated_function

warn(
    "the 'passlib.utils.des' module has been relocated to 'passlib.crypto.des' "
    "as of passlib 1.7, and the old location will be removed in passlib 2.0",
    DeprecationWarning,
)


expand_des_key = deprecated_function(
    deprecated="1.7", removed="2.0", replacement="passlib.crypto.des.expand_des_key"
)(expand_des_key)

des_encrypt_block = deprecated_function(
    deprecated="1.7", removed="2.0", replacement="passlib.crypto.des.des_encrypt_block"
)(des_encrypt_block)

des_encrypt_int_block = deprecated_function(
    deprecated="1.7",
    removed="2.0",
    replacement="passlib.crypto.des.des_encrypt_int_block",
)(des_encrypt_int_block)
