"""C08 -- malformed or altered hash strings are rejected cleanly and never verify.

Decided: from hostile input, no exception other than the documented ValueError/TypeError families
can escape through the constructs modelled (content asserts, unguarded constant indexing, unguarded
table lookups) on any parser path of any registered hasher or libpass inspector; a str|bytes hash
is normalised before any text operation; base64 decoders map lookup failures to ValueError; verify
compares the whole stored digest; identify() of the generic handler swallows only ValueError from the
parser.  Not decided: that an altered digest differs after recomputation (cryptographic)."""
from __future__ import annotations

import ast

from pv.q import text as qtext
from pv.model import AnalysisError, walk_no_nested, params, UNKNOWN
from pv.handlers import HandlerTable
from pv.taint import Taint
from pv import types as T

UH = "passlib.utils.handlers"
ROOT_METHODS = ("identify", "verify", "needs_update", "from_string", "genhash", "parsehash", "normhash", "enable", "disable", "parse")
HASH_PARAMS = ("hash", "config")


def site(u, f):
    return f"{u}:{f}"


def _roots(model):
    table = HandlerTable(model)
    roots = []
    seen = set()
    for h in table:
        if h.kind == "wrapper":
            continue
        for m in ROOT_METHODS:
            owner, fn = model.method(h.cref, m, required=False)
            if fn is None:
                continue
            tp = [p for p in params(fn) if p in HASH_PARAMS]
            if not tp:
                continue
            key = (owner, m, h.cref if m in ("from_string", "identify", "verify", "needs_update") else None)
            if key in seen:
                continue
            seen.add(key)
            roots.append((h.name, owner[0], fn, h.cref, tp))
        # helpers reached only through getattr()-style dynamic dispatch (scrypt._parse_<ident>_string) or hooks
        for k in model.mro(h.cref):
            if k[0] in model.units and k[1] in model.units[k[0]].classes and k[0].startswith("passlib.handlers"):
                for mname, node in model.class_members(k).items():
                    if isinstance(node, ast.FunctionDef) and (mname.startswith("_parse_") or mname in ("_norm_hash",)):
                        ps = [p for p in params(node) if p not in ("self", "cls")]
                        if ps and (k, mname) not in seen:
                            seen.add((k, mname))
                            roots.append((h.name, k[0], node, h.cref, ps[:1]))
        o2, mixmap = model.lookup(h.cref, "_backend_mixin_map")
        if isinstance(mixmap, ast.Dict):
            for v in mixmap.values:
                r = model.resolve(model.unit(o2[0]), v)
                if r and r[0] == "class":
                    for m in ("verify", "genhash", "hash"):
                        mem = model.class_members((r[1], r[2]))
                        fn = mem.get(m)
                        if isinstance(fn, ast.FunctionDef):
                            tp = [p for p in params(fn) if p in HASH_PARAMS]
                            if tp:
                                roots.append((f"{h.name}[{r[2]}]", r[1], fn, (r[1], r[2]), tp))
    # PrefixWrapper methods
    for m in ("identify", "verify", "needs_update", "genhash", "_unwrap_hash", "_wrap_hash"):
        fn = model.func(UH, "PrefixWrapper." + m)
        tp = [p for p in params(fn) if p in HASH_PARAMS]
        roots.append(("PrefixWrapper", UH, fn, (UH, "PrefixWrapper"), tp))
    # libpass inspectors and hashers
    for un in ("libpass.inspect.bcrypt", "libpass.inspect.pbkdf2", "libpass.inspect.sha_crypt", "libpass.inspect.phc._phc"):
        unit = model.unit(un)
        for fname, fn in unit.funcs.items():
            if fname.startswith("inspect_"):
                roots.append((fname, un, fn, None, ["hash"]))
    for un in ("libpass.hashers.bcrypt", "libpass.hashers.pbkdf2", "libpass.hashers.sha_crypt", "libpass.hashers.argon2"):
        unit = model.unit(un)
        for cn in unit.classes:
            for m in ("verify", "identify", "needs_update"):
                mem = model.class_members((un, cn))
                fn = mem.get(m)
                if isinstance(fn, ast.FunctionDef):
                    roots.append((cn, un, fn, (un, cn), ["hash"]))
    return roots


def rule_a(model, rep):
    R = "C08.a-exception-escape"
    roots = _roots(model)
    tn = Taint(model)
    for name, un, fn, cref, tp in roots:
        before = len(tn.findings)
        tn.analyze(un, fn, cref, set(tp))
        if len(tn.findings) == before:
            rep.hold(R, site(un, model.unit(un).qualname(fn)) + f"<{name}>", "no assert / unguarded index / unguarded lookup reachable from the hash string")
    seen = set()
    for f in tn.findings:
        key = (f.unit, f.qual, f.construct, f.kind)
        if key in seen:
            continue
        seen.add(key)
        if (f.unit, f.qual, f.kind) in TRIAGED:
            rep.hold(R, site(f.unit, f.qual), f"triaged: {TRIAGED[(f.unit, f.qual, f.kind)]}")
            continue
        rep.violation(R, site(f.unit, f.qual), f"{f.kind}: {f.construct}", f.msg + (f" (reached via {' -> '.join(f.chain)})" if f.chain else ""),
                      witness="identify()/verify()/needs_update() of a hostile or truncated hash string raises IndexError / KeyError / AssertionError "
                              "instead of answering or raising ValueError")
    rep.extra["taint_functions"] = sorted(tn.visited)
    rep.extra["taint_roots"] = len(roots)
    rep.minimum(R, 100)


#: findings of the taint engine on today's tree that were read and found harmless, one reason each
TRIAGED = {}


# ----------------------------------------------------------------------------- C08.b
def rule_b(model, rep):
    R = "C08.b-hash-normalised"
    W = "PrefixWrapper."
    for m, p in (("verify", "hash"), ("identify", "hash"), ("needs_update", "hash"), ("genhash", "config")):
        fn = model.func(UH, W + m)
        # the statement calling _unwrap_hash must be preceded (same or enclosing block) by a normaliser of the same name
        unit = model.unit(UH)
        calls = [n for n in walk_no_nested(fn) if isinstance(n, ast.Call) and ast.unparse(n.func) == "self._unwrap_hash"]
        if len(calls) != 1:
            rep.undecided(R, site(UH, W + m), "_unwrap_hash call not found")
            continue
        ok = False
        node = calls[0]
        while node is not fn and node is not None:
            par = unit.parent(node)
            for fld in ("body", "orelse"):
                blk = getattr(par, fld, None)
                if isinstance(blk, list) and node in blk:
                    for prev in blk[: blk.index(node)]:
                        t = qtext(prev)
                        if t.startswith(f"{p} = to_unicode({p}") or t.startswith(f"{p} = to_unicode_for_identify({p}") or \
                                t.startswith(f"{p} = to_native_str({p}"):
                            ok = True
            node = par
        rep.check(ok, R, site(UH, W + m), ast.unparse(calls[0]), f"`{p}` is normalised to text before the prefix is stripped",
                  witness=f"PrefixWrapper.{m}(b'{{CRYPT}}$1$...') raises TypeError (bytes.startswith(str))")
    # type flow with hash = str|bytes over every parser root: text operations on a possibly-bytes hash
    an = T.Analyzer(model)
    roots = _roots(model)
    for name, un, fn, cref, tp in roots:
        if un.startswith("libpass.") or un == UH and fn.name in ("_unwrap_hash", "_wrap_hash"):
            continue
        if fn.name.startswith("_parse_") or fn.name == "_norm_hash":
            continue  # helpers behind a normalising entry point (their callers pass text); roots for the taint rule only
        before = len(an.findings)
        an.analyze(un, fn, cref, {p: T.EITHER for p in tp})
        new = [f for f in an.findings[before:]]
        if not new:
            rep.hold(R, site(un, model.unit(un).qualname(fn)) + f"<{name}>", "hash is normalised before text operations")
    seen = set()
    for f in an.findings:
        if f.kind == "str-reaches-bytes-sink":
            continue  # secret-side findings belong to C01
        key = (f.unit, f.qual, f.construct, f.kind)
        if key in seen:
            continue
        seen.add(key)
        rep.violation(R, site(f.unit, f.qual), f"{f.kind}: {f.construct}", f.msg + (f" (via {' -> '.join(f.chain)})" if f.chain else ""),
                      witness="a bytes hash raises TypeError/AttributeError instead of being parsed or rejected with ValueError")
    rep.minimum(R, 60)


# ----------------------------------------------------------------------------- C08.c
def rule_c(model, rep):
    R = "C08.c-decoder-errors"
    B = "passlib.utils.binary"
    unit = model.unit(B)
    n = 0
    for q, fn in unit.functions():
        if not q.startswith("Base64Engine."):
            continue
        aliases = {ast.unparse(a.targets[0]) for a in walk_no_nested(fn) if isinstance(a, ast.Assign) and ast.unparse(a.value) == "self._decode64" and isinstance(a.targets[0], ast.Name)}
        # lookups through the decode map: subscript `<something>[...]` where base name is decode64/_decode64/dmap
        for node in walk_no_nested(fn):
            if isinstance(node, ast.Subscript) and isinstance(node.ctx, ast.Load) and not isinstance(node.slice, ast.Slice):
                b = ast.unparse(node.value)
                if b in ("self._decode64", "decode64", "dmap", "_decode64"):
                    n += 1
                    t = unit.enclosing(node, ast.Try)
                    ok = False
                    while t is not None:
                        if any(h.type is not None and "KeyError" in qtext(h.type) and
                               any(isinstance(x, ast.Raise) and "ValueError" in qtext(x) for x in h.body) for h in t.handlers):
                            ok = True
                        t = unit.enclosing(t, ast.Try)
                    # map(next_value) style handled below
                    rep.check(ok, R, site(B, q), ast.unparse(node), "decode-map lookup is inside try/except KeyError -> ValueError",
                              witness="decoding a string with a character outside the alphabet raises KeyError")
            # direct calls: `_decode64` is the decode table's __getitem__, so calling it raises KeyError just the same
            if isinstance(node, ast.Call) and (ast.unparse(node.func) == "self._decode64" or
                                               (isinstance(node.func, ast.Name) and node.func.id in aliases)):
                n += 1
                t = unit.enclosing(node, ast.Try)
                ok = False
                while t is not None:
                    if any(h.type is not None and qtext(h.type).loose("KeyError") and
                           any(isinstance(x, ast.Raise) and qtext(x).loose("ValueError") for x in h.body) for h in t.handlers):
                        ok = True
                    t = unit.enclosing(t, ast.Try)
                rep.check(ok, R, site(B, q), ast.unparse(node), "decode-table call is inside try/except KeyError -> ValueError",
                          witness="a byte outside the alphabet raises KeyError instead of ValueError (e.g. h64.check_repair_unused(b'ab!'))")
            if isinstance(node, ast.Call) and ast.unparse(node.func) in ("map",) and node.args and ast.unparse(node.args[0]) in (
                    "self._decode64", "decode64"):
                n += 1
                t = unit.enclosing(node, ast.Try)
                ok = False
                while t is not None:
                    if any(h.type is not None and "KeyError" in qtext(h.type) and
                           any(isinstance(x, ast.Raise) and "ValueError" in qtext(x) for x in h.body) for h in t.handlers):
                        ok = True
                    t = unit.enclosing(t, ast.Try)
                if not ok:
                    # the generator is consumed by a callee inside a try in the same function
                    ok = any(isinstance(t2, ast.Try) and any(h.type is not None and "KeyError" in qtext(h.type) for h in t2.handlers)
                             for t2 in walk_no_nested(fn))
                rep.check(ok, R, site(B, q), ast.unparse(node)[:80], "lazy decode-map lookups are consumed under except KeyError -> ValueError",
                          witness="decoding a string with a character outside the alphabet raises KeyError")
    rep.minimum(R, 4)
    # wrong length -> ValueError in decode_bytes
    fn = model.func(B, "Base64Engine.decode_bytes")
    txt = qtext(fn)
    ok = txt.loose("tail == 1") and txt.loose("ValueError")
    rep.check(ok, R, site(B, "Base64Engine.decode_bytes"), "tail == 1 -> ValueError", "a length of 1 mod 4 is refused with ValueError",
              witness="truncated encodings decode to garbage instead of being refused")
    for f in ("b64s_decode", "ab64_decode"):
        fn = model.func(B, f)
        txt = qtext(fn)
        ok = txt.loose("except _BinAsciiError") or txt.loose("except (_BinAsciiError") or txt.loose("ValueError")
        rep.check(ok, R, site(B, f), "binascii error mapped", f"{f} maps decoding errors to a value/type error")
    # GenericHandler.identify: parse-to-identify swallows exactly ValueError
    fn = model.func(UH, "GenericHandler.identify")
    tries = [n for n in walk_no_nested(fn) if isinstance(n, ast.Try)]
    ok = len(tries) == 1 and len(tries[0].handlers) == 1 and ast.unparse(tries[0].handlers[0].type) == "ValueError" and \
        [ast.unparse(x) for x in tries[0].handlers[0].body] == ["return False"]
    rep.check(ok, R, site(UH, "GenericHandler.identify"), ast.unparse(tries[0].handlers[0]) if tries else "<none>",
              "identify() by parsing answers False for exactly the documented ValueError family")
    fn = model.func(UH, "to_unicode_for_identify")
    txt = qtext(fn)
    rep.check(txt.loose("except UnicodeDecodeError") and txt.loose("decode('latin-1')"), R, site(UH, "to_unicode_for_identify"), "latin-1 fallback",
              "identify() never fails on non-UTF-8 bytes")


# ----------------------------------------------------------------------------- C08.d
def rule_f(model, rep):
    """passlib.exc builds several of its errors through factory *functions* (MalformedHashError(...) returns a ValueError);
    `raise exc.MalformedHashError` without the call raises TypeError('exceptions must derive from BaseException')"""
    R = "C08.f-raise-factory"
    ex = model.unit("passlib.exc")
    factories = set(ex.funcs)
    n = 0
    for un, unit in model.units.items():
        if not un.startswith(("passlib.", "libpass.")):
            continue
        for q, fn in unit.functions():
            for r in walk_no_nested(fn):
                if not isinstance(r, ast.Raise) or r.exc is None:
                    continue
                e = r.exc
                target = e.func if isinstance(e, ast.Call) else e
                name = target.attr if isinstance(target, ast.Attribute) else (target.id if isinstance(target, ast.Name) else None)
                if name not in factories:
                    continue
                # is it really passlib.exc's function?
                base = ast.unparse(target)
                if not (base.endswith("exc." + name) or model.dotted(unit, target) == "passlib.exc." + name or (isinstance(target, ast.Name) and unit.imports.get(name, (None, None))[0] == "passlib.exc")):
                    continue
                n += 1
                rep.check(isinstance(e, ast.Call), R, site(un, q), f"raise {ast.unparse(e)}  # a factory function, not an exception class: must be called",
                          f"`{name}` is a function that builds the exception; it is raised as `{name}(...)`",
                          witness=f"the malformed input reaching this line raises TypeError('exceptions must derive from BaseException') instead of ValueError "
                                  f"(e.g. scrypt.verify('pw', '$7$C6..../....ab$cd$' + 'x'*43))")
    if n < 40:
        rep.undecided(R, "<instance-count>", f"only {n} raises of passlib.exc factories found, expected at least 40")


def rule_g(model, rep):
    """lenient library decoders: base64.b64decode() without validate=True *discards* characters outside the alphabet, so a stored hash whose
    salt or digest field was altered with junk characters still decodes to the same bytes and verifies; hashlib.pbkdf2_hmac() raises
    OverflowError (not ValueError) for an iteration count beyond a C int"""
    R = "C08.g-lenient-decoders"
    n = 0
    for un, unit in model.units.items():
        if not un.startswith(("passlib.handlers", "libpass.inspect", "libpass.hashers", "libpass._utils")):
            continue
        for q, fn in unit.functions():
            regex_fed = any(isinstance(c, ast.Call) and isinstance(c.func, ast.Attribute) and c.func.attr in ("match", "fullmatch") and "regex" in ast.unparse(c.func.value) for c in walk_no_nested(fn))
            for c in walk_no_nested(fn):
                if isinstance(c, ast.Call) and ast.unparse(c.func) in ("b64decode", "base64.b64decode"):
                    n += 1
                    strict = any(k.arg == "validate" and ast.unparse(k.value) == "True" for k in c.keywords)
                    if strict or regex_fed:
                        rep.hold(R, site(un, q), f"{ast.unparse(c)[:60]}: " + ("validate=True" if strict else "input restricted to the alphabet by the regex this parser matches"))
                    else:
                        rep.violation(R, site(un, q), f"{ast.unparse(c)}  # no validate=True and no regex in front",
                                      "base64.b64decode() skips characters outside the alphabet unless validate=True; nothing restricts the field before it is decoded",
                                      witness="'{PKCS5S2}$$$<base64>' (or junk inside a cta_pbkdf2_sha1 salt field) decodes to the same bytes: the altered hash string verifies the original password")
    if n < 4:
        rep.undecided(R, "<instance-count>", f"only {n} base64.b64decode calls found in the handlers, expected at least 4")
    D = "passlib.crypto.digest"
    fn = model.func(D, "pbkdf2_hmac")
    call = [c for c in walk_no_nested(fn) if isinstance(c, ast.Call) and ast.unparse(c.func) == "hashlib.pbkdf2_hmac"]
    unit = model.unit(D)
    mapped = False
    threshold = None
    for c in call:
        t = unit.enclosing(c, ast.Try)
        while t is not None:
            for h in t.handlers:
                if h.type is None or "OverflowError" not in ast.unparse(h.type):
                    continue
                for x in h.body:
                    if isinstance(x, ast.Raise) and "ValueError" in ast.unparse(x):
                        mapped = True       # unconditional translation
                    # `if rounds > K: raise ValueError(...)` + re-raise: the translation covers rounds > K only, and a C int ends at 2**31 - 1
                    if isinstance(x, ast.If) and x.body and isinstance(x.body[-1], ast.Raise) and "ValueError" in ast.unparse(x.body[-1]) and isinstance(x.test, ast.Compare) \
                            and len(x.test.ops) == 1 and isinstance(x.test.ops[0], (ast.Gt, ast.GtE)) and ast.unparse(x.test.left) == "rounds":
                        k = model.fold(unit, x.test.comparators[0])
                        threshold = k
                        if isinstance(k, int) and k + (0 if isinstance(x.test.ops[0], ast.Gt) else -1) <= 0x7FFFFFFF:
                            mapped = True
            t = unit.enclosing(t, ast.Try)
    def _pre_bound(n_):
        # a guard in front of the call (not inside the except handler): `if rounds > K: raise ValueError` with K within a C int
        if not (isinstance(n_, ast.If) and n_.body and isinstance(n_.body[-1], ast.Raise) and "ValueError" in ast.unparse(n_.body[-1]) and isinstance(n_.test, ast.Compare)
                and len(n_.test.ops) == 1 and isinstance(n_.test.ops[0], (ast.Gt, ast.GtE)) and ast.unparse(n_.test.left) == "rounds"):
            return False
        if unit.enclosing(n_, ast.ExceptHandler) is not None:
            return False
        k = model.fold(unit, n_.test.comparators[0])
        return isinstance(k, int) and k <= 0x7FFFFFFF
    bounded = any(_pre_bound(n_) for n_ in walk_no_nested(fn))
    rep.check(bool(call) and (mapped or bounded), R, f"{D}:pbkdf2_hmac rounds", "hashlib.pbkdf2_hmac(..., rounds, ...)  # OverflowError for rounds >= 2**31 is not translated" + (f" (only above {threshold!r})" if threshold is not None else ""),
              "an iteration count the C library cannot take is reported as ValueError (the handlers declare max_rounds = 0xFFFFFFFF, so the parser lets it through)",
              witness="pbkdf2_sha256.verify(pw, '$pbkdf2-sha256$2147483648$<salt>$<chk>') raises OverflowError('iteration value is too great')")
    # the same function re-raises OverflowError for a *key length* beyond a C int (the pinned suite requires that of pbkdf2_hmac itself); the
    # builtin scrypt engine asks it for p * 128 * r bytes, r and p being read from the hash string, and validate() admits r * p up to 2**30 - 1
    SC = "passlib.crypto.scrypt"
    fsc = model.func(SC, "scrypt")
    usc = model.unit(SC)
    bcall = [c for c in walk_no_nested(fsc) if isinstance(c, ast.Call) and ast.unparse(c.func) == "_scrypt"]
    mapped = False
    for c in bcall:
        t = usc.enclosing(c, ast.Try)
        while t is not None:
            if any(h.type is not None and "OverflowError" in ast.unparse(h.type) and any(isinstance(x, ast.Raise) and "ValueError" in ast.unparse(x) for x in h.body) for h in t.handlers):
                mapped = True
            t = usc.enclosing(t, ast.Try)
    max_rp = model.fold(usc, ast.Name(id="MAX_RP", ctx=ast.Load()))
    bounded = isinstance(max_rp, int) and (max_rp + 1) * 128 <= 2 ** 31
    be = model.func(SC + "._builtin", "ScryptEngine.run")
    asks = [ast.unparse(c) for c in walk_no_nested(be) if isinstance(c, ast.Call) and ast.unparse(c.func) == "pbkdf2_hmac" and any(k.arg == "keylen" and ast.unparse(k.value) == "iv_bytes" for k in c.keywords)]
    if not asks and not bounded and not mapped:
        rep.undecided(R, f"{SC}._builtin:ScryptEngine.run", "the pbkdf2_hmac(..., keylen=iv_bytes) request was not found")
    rep.check(len(bcall) == 1 and (mapped or bounded), R, f"{SC}:scrypt backend call", f"return {ast.unparse(bcall[0])[:60]}  # MAX_RP={max_rp!r}; OverflowError of the backend not translated" if bcall else "<no backend call>",
              "parameters the selected backend cannot take are reported as ValueError: either validate() keeps p * 128 * r within a C int, or the OverflowError of the backend is translated",
              witness="scrypt.set_backend('builtin'); scrypt.verify(pw, '$scrypt$ln=4,r=33554432,p=1$<salt>$<chk>') raises OverflowError('key length is too great')")
    # scram: an empty algorithm name in the digest list
    S = "passlib.handlers.scram"
    fs = model.func(S, "scram.from_string")
    guard = any(isinstance(n_, ast.If) and ast.unparse(n_.test) in ("not alg", "not alg.strip()", "not alg or not digest") and n_.body and isinstance(n_.body[-1], ast.Raise) for n_ in walk_no_nested(fs))
    rep.check(guard, R, f"{S}:scram.from_string empty algorithm", "alg, digest = pair.split('=')  # alg may be empty",
              "an empty algorithm name in the digest list is refused as malformed (lookup_hash() asserts a non-empty name)",
              witness="scram.verify(pw, '<valid scram hash>,=AAAA') raises AssertionError; under python -O it parses and verifies")


def _unicode_digit_groups(pattern, flags):
    """does a *str* regex use \\d (Unicode decimal digits) anywhere"""
    import re._parser as sp
    if isinstance(pattern, bytes):
        return False
    found = []

    def walk(seq):
        for op, av in seq:
            o = str(op)
            if o == "IN":
                for k, v in av:
                    if str(k) == "CATEGORY" and "DIGIT" in str(v) and "NOT" not in str(v):
                        found.append(str(v))
            elif o == "CATEGORY" and "DIGIT" in str(av) and "NOT" not in str(av):
                found.append(str(av))
            elif o in ("MAX_REPEAT", "MIN_REPEAT", "POSSESSIVE_REPEAT"):
                walk(av[2])
            elif o == "SUBPATTERN":
                walk(av[3])
            elif o == "BRANCH":
                for br in av[1]:
                    walk(br)
    walk(sp.parse(pattern, flags))
    return bool(found) and not (flags & 256)  # re.ASCII


def _digits_only_helper(model, unit, call):
    """callee of `call` returns all(c in <const ascii digits> for c in <arg>)"""
    import string
    f = call.func
    name = f.id if isinstance(f, ast.Name) else f.attr if isinstance(f, ast.Attribute) else None
    if name is None:
        return False
    for un in (unit.name, "passlib.utils.handlers"):
        fn = model.func(un, name, required=False) if un in model.units else None
        if fn is None:
            continue
        consts = [c.value for c in ast.walk(fn) if isinstance(c, ast.Constant) and isinstance(c.value, str) and c is not getattr(fn.body[0], "value", None)]
        alls = [c for c in ast.walk(fn) if isinstance(c, ast.Call) and isinstance(c.func, ast.Name) and c.func.id == "all" and c.args and isinstance(c.args[0], ast.GeneratorExp)
                and isinstance(c.args[0].elt, ast.Compare) and isinstance(c.args[0].elt.ops[0], ast.In)]
        return bool(alls) and bool(consts) and all(set(c) <= set(string.hexdigits) for c in consts)
    return False


#: parsers whose field is fixed-width, so the padded spelling *is* the canonical one (the renderer writes it; C07.f checks the pair)
ZERO_PAD_CANONICAL = {
    ("passlib.handlers.cisco", "cisco_type7.from_string"): "salt is rendered '%02d' and read as exactly 2 characters",
    ("libpass.inspect.bcrypt", "inspect_bcrypt_hash"): "cost is rendered ':02'; the string is handed to the bcrypt library as it stands, and the project's tests use the 1-digit spelling too",
}


def rule_h(model, rep):
    """a number in a hash string has one spelling; int() also accepts '+1000', ' 1000', '1_000' and non-ASCII digits, so a parser that
    only calls int() (even after a zero-padding test) lets an altered string through unless the text is restricted to ASCII digits first
    (explicit test, [0-9] regex group, bytes regex) or compared with the re-rendered number"""
    from rules.c07 import _regex_uses
    from pv.identify import fold_regex
    R = "C08.h-canonical-numbers"
    PARSERS = ("from_string", "parse_mc3", "parse_int", "_parse_scrypt_string", "_parse_7_string")
    n = 0
    for un, unit in model.units.items():
        if not un.startswith(("passlib.handlers", "passlib.utils.handlers", "libpass.inspect", "libpass.hashers")):
            continue
        for q, fn in unit.functions():
            if q.split(".")[-1] not in PARSERS and not un.startswith("libpass.inspect"):
                continue
            tparams = {a.arg for a in fn.args.args if a.annotation is not None and ast.unparse(a.annotation) in ("type", "type[Any]")}
            # int(<text>), or a conversion through a type object taken from a definition (`param.type(text)`, `type_(text)`): int is among the types
            ints = [c for c in walk_no_nested(fn) if isinstance(c, ast.Call) and c.args and not isinstance(c.args[0], ast.Constant) and (
                (isinstance(c.func, ast.Name) and (c.func.id == "int" or c.func.id in tparams)) or (isinstance(c.func, ast.Attribute) and c.func.attr == "type"))]
            if not ints:
                continue
            txt = ast.unparse(fn)
            nodes = list(walk_no_nested(fn))
            # regexes the function matches with: str patterns using \\d admit non-ASCII digits
            cref = (un, q.rsplit(".", 1)[0]) if "." in q else None
            rx_bad, rx_seen, rx_pats = [], 0, []
            for attr, how in _regex_uses(fn):
                cands = []
                if cref:
                    owner, node = model.lookup(cref, attr)
                    if node is not None:
                        cands.append((model.unit(owner[0]), node, cref))
                else:   # module-level parser taking the info class as a parameter: every class of the unit defining ATTR
                    for cd in [c for c in unit.tree.body if isinstance(c, ast.ClassDef)]:
                        for st in cd.body:
                            if isinstance(st, ast.Assign) and any(isinstance(t, ast.Name) and t.id == attr for t in st.targets):
                                cands.append((unit, st.value, (un, cd.name)))
                if not cands and attr in unit.assigns:
                    cands.append((unit, unit.assigns[attr][0], None))
                for ru, node, cr in cands:
                    if not (isinstance(node, ast.Call) and node.args):
                        continue
                    pat = model.fold(ru, node.args[0], cls=cr)
                    if pat is UNKNOWN:
                        continue
                    rx_seen += 1
                    try:
                        _, flags = fold_regex(model, ru, node, cls=cr)
                    except Exception:
                        flags = 0
                    rx_pats.append((f"{cr[1] + '.' if cr else ''}{attr}", pat, flags))
                    if isinstance(pat, str):
                        if _unicode_digit_groups(pat, flags):
                            rx_bad.append(f"{cr[1] + '.' if cr else ''}{attr}")
            from_group = {t.id for a in nodes if isinstance(a, ast.Assign) and (".group(" in ast.unparse(a.value) or ".groupdict(" in ast.unparse(a.value) or ".groups(" in ast.unparse(a.value)) for tt in a.targets for t in ast.walk(tt) if isinstance(t, ast.Name)}
            # name -> regex group it holds: x = m.group('g'); a, b = m.group(1, 2); groups = m.groupdict() ... groups['g']
            group_of = {}
            for a in nodes:
                if isinstance(a, ast.Assign) and isinstance(a.value, ast.Call) and isinstance(a.value.func, ast.Attribute) and a.value.func.attr == "group":
                    gs = [x.value for x in a.value.args if isinstance(x, ast.Constant)]
                    t0 = a.targets[0]
                    if isinstance(t0, ast.Name) and len(gs) == 1:
                        group_of[t0.id] = gs[0]
                    elif isinstance(t0, ast.Tuple) and len(t0.elts) == len(gs):
                        for t, g in zip(t0.elts, gs):
                            if isinstance(t, ast.Name):
                                group_of[t.id] = g
                elif isinstance(a, ast.Assign) and isinstance(a.value, ast.Call) and isinstance(a.value.func, ast.Attribute) and a.value.func.attr == "groups" and not a.value.args \
                        and isinstance(a.targets[0], ast.Tuple):
                    # a, b, c = m.groups(): positional groups 1..n
                    for i, t in enumerate(a.targets[0].elts, 1):
                        if isinstance(t, ast.Name):
                            group_of[t.id] = i

            def group_id(e):
                if isinstance(e, ast.Call) and isinstance(e.func, ast.Attribute) and e.func.attr == "group" and len(e.args) == 1 and isinstance(e.args[0], ast.Constant):
                    return e.args[0].value
                if isinstance(e, ast.Subscript) and isinstance(e.slice, ast.Constant) and isinstance(e.value, ast.Name) and e.value.id in from_group:
                    return e.slice.value
                if isinstance(e, ast.Name):
                    return group_of.get(e.id)
                return None
            for c in ints:
                arg = ast.unparse(c.args[0])
                base = arg.split("[")[0].split(".")[0]
                rerender = any(isinstance(x, ast.Compare) and len(x.ops) == 1 and isinstance(x.ops[0], ast.NotEq) and base in ast.unparse(x.left) and
                               ("str(" in ast.unparse(x.comparators[0]) or "%" in ast.unparse(x.comparators[0])) for x in nodes)
                explicit = f"{arg}.isascii()" in txt and f"{arg}.isdigit()" in txt
                helper = any(isinstance(x, ast.Call) and x.args and ast.unparse(x.args[0]) == arg and x is not c and _digits_only_helper(model, unit, x) for x in nodes)
                via_regex = (".group(" in arg or base in from_group) and rx_seen and not rx_bad
                n += 1
                s = site(un, q) + f" int({arg})"
                # zero padding: '01000' is another spelling of 1000
                gid = group_id(c.args[0])
                padded = None
                if via_regex and gid is not None:
                    from pv.lang import group_dfa
                    for rn, pat, flags in rx_pats:
                        try:
                            d = group_dfa(pat, flags, gid)
                        except Exception:
                            d = None
                        if d is not None and (d.accepts("01") or d.accepts("00") or d.accepts("007")):
                            padded = rn
                zero_test = any(isinstance(x, ast.Call) and isinstance(x.func, ast.Attribute) and x.func.attr == "startswith" and ast.unparse(x.func.value) == arg and x.args and
                                (model.fold(unit, x.args[0]) == "0" or ast.unparse(x.args[0]) in ("_UZERO", "uh._UZERO", "'0'")) for x in nodes)
                exempt = ZERO_PAD_CANONICAL.get((un, q))
                if (rerender or explicit or helper or via_regex) and padded and not (zero_test or rerender or exempt):
                    rep.violation(R, s, f"group <{gid}> of {padded} also matches '01' / '007'", "the field accepts zero-padded spellings of the same number and nothing rejects them afterwards",
                                  witness="fshp.verify(pw, h.replace('|16|', '|016|')) / bcrypt_sha256 'v=02' / libpass '$5$rounds=01000$': an altered stored string verifies the original password")
                elif (explicit and not (zero_test or rerender or exempt)):
                    rep.violation(R, s, f"int({arg}) after a digits test only", "digits-only text still admits zero-padded spellings and nothing rejects them",
                                  witness="an altered stored string ('5' -> '05') verifies the original password")
                elif rerender or explicit or helper or via_regex:
                    rep.hold(R, s, "text restricted to ASCII digits (explicit test / digits-only helper / [0-9] or bytes regex group) or compared with the re-rendered number")
                else:
                    why = f"regex {rx_bad} uses \\d on text, which also matches non-ASCII decimal digits" if rx_bad and (".group(" in arg or base in from_group) else \
                        "the numeric field is converted with a bare int(); nothing ties the text to the canonical decimal spelling"
                    rep.violation(R, s, f"int({arg})  # accepts '+1000', ' 1000', '1_000', full-width / Arabic-Indic digits", why,
                                  witness="sha256_crypt.verify(pw, '$5$rounds=+1000$...') / 'rounds=1_000' / 'rounds= 1000' verify like the original: an altered hash string is accepted")
    if n < 12:
        rep.undecided(R, "<instance-count>", f"only {n} int() conversions found in parsers, expected at least 12")


def rule_i(model, rep):
    """`$` also matches before a trailing newline: a parser that anchors its regex with `$` and calls .match() accepts <hash> + '\\n'
    (an insertion at the last position) and verifies it like the original; \\Z or fullmatch() close the end"""
    import re._parser as sp
    from rules.c07 import _regex_uses
    from pv.identify import fold_regex
    R = "C08.i-end-anchor"
    n = 0
    for un, unit in model.units.items():
        if not un.startswith(("passlib.handlers", "passlib.utils.handlers", "libpass.inspect", "libpass.hashers")):
            continue
        for q, fn in unit.functions():
            cref = (un, q.rsplit(".", 1)[0]) if "." in q else None
            negative = {ast.unparse(c.left.func.value).split(".")[-1] for c in walk_no_nested(fn) if isinstance(c, ast.Compare) and isinstance(c.left, ast.Call)
                        and isinstance(c.left.func, ast.Attribute) and isinstance(c.ops[0], ast.Is) and ast.unparse(c.comparators[0]) == "None"}
            alias = {t.id: a.value.attr for a in walk_no_nested(fn) if isinstance(a, ast.Assign) and isinstance(a.value, ast.Attribute) and isinstance(a.value.value, ast.Name)
                     and a.value.value.id in ("cls", "self") for t in a.targets if isinstance(t, ast.Name)}
            for attr, how in _regex_uses(fn):
                attr = alias.get(attr, attr)
                if attr in negative:
                    continue    # `pat.match(x) is None` accepts on a mismatch: a laxer end makes the test stricter, not looser
                cands = []
                if cref:
                    try:
                        owner, node = model.lookup(cref, attr)
                    except Exception:
                        node = None
                    if isinstance(node, ast.Call):
                        cands.append((model.unit(owner[0]), node, cref))
                    else:   # helper base class: the attribute is declared by each subclass
                        for sub in model.subclasses(cref):
                            o2, n2 = model.lookup(sub, attr)
                            if isinstance(n2, ast.Call) and (model.unit(o2[0]), n2, tuple(o2)) not in cands:
                                cands.append((model.unit(o2[0]), n2, tuple(o2)))
                else:
                    for cd in [c for c in unit.tree.body if isinstance(c, ast.ClassDef)]:
                        for st in cd.body:
                            if isinstance(st, ast.Assign) and any(isinstance(t, ast.Name) and t.id == attr for t in st.targets):
                                cands.append((unit, st.value, (un, cd.name)))
                if not cands and attr in unit.assigns:
                    cands.append((unit, unit.assigns[attr][0], None))
                for ru, node, cr in cands:
                    try:
                        pat, flags = fold_regex(model, ru, node, cls=cr)
                    except Exception:
                        continue
                    parsed = sp.parse(pat, flags)
                    last = parsed[-1] if len(parsed) else None
                    end = str(last[1]) if last is not None and str(last[0]) == "AT" else None
                    s = site(un, q) + f" {cr[1] + '.' if cr else ''}{attr}.{how}"
                    if end is None:
                        continue     # prefix tests (identify by ident): nothing claims to reach the end of the string
                    n += 1
                    multiline = bool(flags & 8)
                    if how == "fullmatch" or (end == "AT_END_STRING"):
                        rep.hold(R, s, "end of the regex is the end of the string (\\Z / fullmatch)")
                    elif end == "AT_END" and not multiline:
                        rep.violation(R, s, f"{attr}: ...$  with .{how}()", "`$` matches before a trailing newline, so <hash> + '\\n' parses like <hash>",
                                      witness="fshp.verify(pw, h + '\\n') / ldap_salted_sha1 / bsdi_crypt / bigcrypt / crypt16 / oracle11 / bcrypt_sha256: an altered stored string (one character appended) verifies the original password")
                    else:
                        rep.undecided(R, s, f"end anchor {end} with flags {flags}")
    if n < 25:
        rep.undecided(R, "<instance-count>", f"only {n} end-anchored regex uses found, expected at least 25")


def rule_j(model, rep):
    """a setting parsed from the string and then used as a key into a class-level table (fshp's variant -> digest name / size) has to be
    checked for membership in that very table when it is normalised; a range test that is wider than the key set turns an altered
    number into a KeyError out of verify()"""
    R = "C08.j-table-key-validated"
    n = 0
    for un, unit in model.units.items():
        if not un.startswith(("passlib.handlers", "libpass.hashers")):
            continue
        for cn, cd in unit.classes.items():
            for fn in [x for x in cd.body if isinstance(x, ast.FunctionDef)]:
                for sub in walk_no_nested(fn):
                    if not (isinstance(sub, ast.Subscript) and isinstance(sub.value, ast.Attribute) and isinstance(sub.value.value, ast.Name) and sub.value.value.id in ("self", "cls")
                            and isinstance(sub.slice, ast.Attribute) and isinstance(sub.slice.value, ast.Name) and sub.slice.value.id == "self" and isinstance(sub.ctx, ast.Load)):
                        continue
                    table, attr = sub.value.attr, sub.slice.attr
                    tv = model.class_const((un, cn), table)
                    if not isinstance(tv, dict):
                        continue
                    n += 1
                    s = site(un, f"{cn}.{fn.name}") + f" {table}[self.{attr}]"
                    # in try/except KeyError?
                    guarded = False
                    cur = sub
                    while cur is not None and cur is not fn:
                        par = unit.parent(cur)
                        if isinstance(par, ast.Try) and cur in par.body and any(h.type is not None and "KeyError" in ast.unparse(h.type) for h in par.handlers):
                            guarded = True
                        cur = par
                    # normaliser of the attribute: self.<attr> = self._norm_x(...) somewhere in the class
                    norms = set()
                    for f2 in [x for x in cd.body if isinstance(x, ast.FunctionDef)]:
                        for a in walk_no_nested(f2):
                            if isinstance(a, ast.Assign) and any(ast.unparse(t) == f"self.{attr}" for t in a.targets):
                                vals = [a.value]
                                if isinstance(a.value, ast.Name):   # two steps: x = self._norm_x(x) ... self.x = x
                                    vals = [b.value for b in walk_no_nested(f2) if isinstance(b, ast.Assign) and any(isinstance(t, ast.Name) and t.id == a.value.id for t in b.targets)]
                                for v in vals:
                                    if isinstance(v, ast.Call) and isinstance(v.func, ast.Attribute) and isinstance(v.func.value, ast.Name) and v.func.value.id in ("self", "cls"):
                                        norms.add(v.func.attr)
                    member = False
                    for nm in norms:
                        nfn = model.method((un, cn), nm, required=False)[1]
                        if nfn is None:
                            continue
                        for t in [x for x in walk_no_nested(nfn) if isinstance(x, ast.If) and any(isinstance(b, ast.Raise) for b in x.body)]:
                            c = t.test
                            if isinstance(c, ast.Compare) and len(c.ops) == 1 and isinstance(c.ops[0], ast.NotIn) and ast.unparse(c.comparators[0]) in (f"cls.{table}", f"self.{table}"):
                                member = True
                    rep.check(guarded or member, R, s, f"normalisers {sorted(norms)}: no `not in cls.{table}` test raising, lookup not inside try/except KeyError",
                              f"`self.{attr}` is validated by membership in `{table}` (the table it later indexes) or the lookup handles KeyError",
                              witness="fshp.verify(pw, '{FSHP4|16|1}...') raises KeyError: 4 instead of ValueError (variant 4 passes a range test but is not a key of the table)")
    if n < 2:
        rep.undecided(R, "<instance-count>", f"only {n} table lookups keyed by a parsed setting found, expected at least 2")


def rule_m(model, rep):
    """identify() answers True or False for every str and bytes value: a codec applied to the string on the identify path (directly or in a
    module helper it hands the string to) must be inside a handler for the UnicodeError it can raise"""
    R = "C08.m-identify-total"
    CATCH = ("UnicodeError", "UnicodeDecodeError", "UnicodeEncodeError", "ValueError", "Exception")
    n = 0
    for un, unit in model.units.items():
        if not un.startswith(("passlib.handlers", "passlib.utils.handlers")):
            continue
        todo = []
        for q, fn in unit.functions():
            if q.split(".")[-1] == "identify":
                ps = [a.arg for a in fn.args.args if a.arg not in ("self", "cls")]
                if ps:
                    todo.append((q, fn, ps[0], 0))
        seen = set()
        while todo:
            q, fn, hp, depth = todo.pop()
            if (q, hp) in seen:
                continue
            seen.add((q, hp))
            n += 1
            names = {hp}
            for a in walk_no_nested(fn):
                if isinstance(a, ast.Assign) and isinstance(a.value, ast.Name) and a.value.id in names:
                    names |= {t.id for t in a.targets if isinstance(t, ast.Name)}
            bad = []
            for c in walk_no_nested(fn):
                if isinstance(c, ast.Call) and isinstance(c.func, ast.Attribute) and c.func.attr in ("decode", "encode") and isinstance(c.func.value, ast.Name) and c.func.value.id in names:
                    guarded = False
                    cur = c
                    while cur is not None and cur is not fn:
                        par = unit.parent(cur)
                        if isinstance(par, ast.Try) and any(cur is x or any(cur is y for y in ast.walk(x)) for x in par.body) and \
                                any(h.type is None or any(k in ast.unparse(h.type) for k in CATCH) for h in par.handlers):
                            guarded = True
                        cur = par
                    codec = ast.unparse(c.args[0]) if c.args else "'utf-8'"
                    if not guarded and "latin" not in codec.lower() and "iso-8859" not in codec.lower() and not any(k.arg == "errors" for k in c.keywords):
                        bad.append(ast.unparse(c))
                # the strict text helpers decode bytes and raise for what the codec does not cover; only to_unicode_for_identify() is total
                if isinstance(c, ast.Call) and ast.unparse(c.func).split(".")[-1] in ("to_unicode", "to_native_str") and c.args and isinstance(c.args[0], ast.Name) and c.args[0].id in names:
                    codec = ast.unparse(c.args[1]) if len(c.args) > 1 else next((ast.unparse(k.value) for k in c.keywords if k.arg == "encoding"), "'utf-8'")
                    guarded = False
                    cur = c
                    while cur is not None and cur is not fn:
                        par = unit.parent(cur)
                        if isinstance(par, ast.Try) and any(cur is x or any(cur is y for y in ast.walk(x)) for x in par.body) and \
                                any(h.type is None or any(k in ast.unparse(h.type) for k in CATCH) for h in par.handlers):
                            guarded = True
                        cur = par
                    if not guarded and "latin" not in codec.lower() and "iso-8859" not in codec.lower():
                        bad.append(ast.unparse(c))
                # module helpers that receive the string
                if isinstance(c, ast.Call) and isinstance(c.func, ast.Name) and c.args and isinstance(c.args[0], ast.Name) and c.args[0].id in names and depth < 2:
                    callee = unit.funcs.get(c.func.id)
                    if callee is not None and callee.args.args:
                        todo.append((c.func.id, callee, callee.args.args[0].arg, depth + 1))
            rep.check(not bad, R, site(un, q), "; ".join(bad) or "no unguarded codec call on the string", "decoding / encoding the candidate string on the identify path cannot raise",
                      witness="mssql2000.identify(b'0x0100\\xff...') raises UnicodeDecodeError instead of answering False; CryptContext.identify() with that scheme listed raises too")
    if n < 12:
        rep.undecided(R, "<instance-count>", f"only {n} identify paths found, expected at least 12")


def rule_d(model, rep):
    R = "C08.d-whole-digest"
    # settings parsed from a *full* hash are validated strictly; only config strings (no digest) may be clipped / truncated
    RS = "C08.d-strict-settings"
    ns = 0
    for un, unit in model.units.items():
        if not un.startswith("passlib."):
            continue
        for q, f0 in unit.functions():
            short = q.split(".")[-1]
            if short not in ("_parse_salt", "_parse_rounds", "_parse_ident", "_parse_checksum"):
                continue
            for c in walk_no_nested(f0):
                if isinstance(c, ast.Call) and isinstance(c.func, ast.Attribute) and c.func.attr.startswith("_norm_"):
                    rel = next((k.value for k in c.keywords if k.arg == "relaxed"), None)
                    ns += 1
                    ok = rel is None or ast.unparse(rel) == "self.checksum is None"
                    rep.check(ok, RS, site(un, q), ast.unparse(c), "a setting parsed from a hash string is normalised strictly unless the string carries no digest (config string)",
                              witness="a full hash whose salt was lengthened (or whose rounds lie outside the limits) is silently repaired while parsing and still verifies: "
                                      "an altered hash string is accepted instead of refused")
    if ns < 4:
        rep.undecided(RS, "<instance-count>", f"only {ns} parse-time normaliser calls found, expected at least 4")
    # ... and that test only means something once the digest is in place: a constructor calling a `_parse_*` hook some override of which
    # reads `self.checksum` must have run the rest of the __init__ chain (GenericHandler.__init__ stores the digest) before the call
    readers = {}
    for un, unit in model.units.items():
        if not un.startswith("passlib."):
            continue
        for q, f0 in unit.functions():
            short = q.split(".")[-1]
            if short.startswith("_parse_") and any(isinstance(x, ast.Attribute) and ast.unparse(x) == "self.checksum" for x in walk_no_nested(f0)):
                readers.setdefault(short, []).append(site(un, q))
    ni = 0
    for un, unit in model.units.items():
        if not un.startswith("passlib."):
            continue
        for q, f0 in unit.functions():
            if q.split(".")[-1] != "__init__":
                continue
            for i, st in enumerate(f0.body):
                called = {c.func.attr for c in ast.walk(st) if isinstance(c, ast.Call) and isinstance(c.func, ast.Attribute) and ast.unparse(c.func.value) == "self" and c.func.attr in readers}
                for hook in sorted(called):
                    ni += 1
                    i_super = next((j for j, s2 in enumerate(f0.body) if isinstance(s2, ast.Expr) and isinstance(s2.value, ast.Call) and ast.unparse(s2.value.func) in ("super().__init__", f"super({q.split('.')[0]}, self).__init__")), None)
                    rep.check(i_super is not None and i_super < i, RS, site(un, q) + f" {hook}", f"super().__init__ at statement {i_super}, self.{hook}() at statement {i}; overrides reading self.checksum: {readers[hook]}",
                              "the digest is stored (super().__init__) before a parse hook that asks `self.checksum is None` runs",
                              witness="sha256_crypt.verify(pw, h with 'rounds=1000' altered to 'rounds=999') is True: the hook sees no digest yet, treats the full hash as a config string and clips the cost instead of refusing it")
    if ni < 2:
        rep.undecided(RS, "<init-order>", f"only {ni} constructor calls of digest-sensitive parse hooks found, expected at least 2")
    # _norm_checksum: size and charset enforced
    fn = model.func(UH, "GenericHandler._norm_checksum")
    txt = qtext(fn)
    ok = txt.loose("if cc and len(checksum) != cc:") and txt.loose("ChecksumSizeError")
    rep.check(ok, R, site(UH, "GenericHandler._norm_checksum"), "if cc and len(checksum) != cc: raise ChecksumSizeError",
              "a stored digest of the wrong length is refused when parsed", witness="a truncated digest is accepted and compared")
    ok = "any((c not in cs for c in checksum))" in txt
    rep.check(ok, R, site(UH, "GenericHandler._norm_checksum"), "any(c not in cs for c in checksum)", "digest characters outside the alphabet are refused")
    # constructor runs checksum through _norm_checksum
    fn = model.func(UH, "GenericHandler.__init__")
    ok = "self.checksum = self._norm_checksum(checksum)" in qtext(fn)
    rep.check(ok, R, site(UH, "GenericHandler.__init__"), "self.checksum = self._norm_checksum(checksum)", "every parsed digest is validated")
    # verify compares whole checksum (no slicing) except mssql2000 (documented half compare)
    for un, unit in model.units.items():
        if not un.startswith("passlib."):
            continue
        for q, fn in unit.functions():
            if q.split(".")[-1] != "verify" or unit.enclosing_class(fn) is None:
                continue
            for n in walk_no_nested(fn):
                if isinstance(n, ast.Call) and ast.unparse(n.func) in ("consteq", "uh.consteq") and len(n.args) == 2:
                    sliced = [a for a in n.args if isinstance(a, ast.Subscript) and isinstance(a.slice, ast.Slice)]
                    if q == "mssql2000.verify":
                        ok = len(sliced) == 1 and ast.unparse(sliced[0]) == "chk[20:]"
                        rep.check(ok, R, site(un, q), ast.unparse(n), "mssql2000 compares the upper-case half (bytes 20..39) by design")
                    else:
                        rep.check(not sliced, R, site(un, q), ast.unparse(n), "the whole stored digest is compared",
                                  witness="altering the un-compared part of the digest still verifies")
    # consteq: length mismatch -> False, compares all positions
    fn = model.func("passlib.utils", "consteq", required=False)
    u = model.unit("passlib.utils")
    if fn is None:
        v = u.assigns.get("consteq")
        r = u.imports.get("consteq")
        ok = (r is not None and r == ("hmac", "compare_digest")) or (v and "compare_digest" in qtext(v[-1]))
        rep.check(bool(ok), R, site("passlib.utils", "consteq"), str(r or (ast.unparse(v[-1]) if v else None)), "consteq is hmac.compare_digest")
    else:
        txt = qtext(fn)
        rep.check(txt.loose("compare_digest") or (txt.loose("result |=") or txt.loose("result |")), R, site("passlib.utils", "consteq"), "constant-time compare",
                  "consteq compares every position")
    rep.minimum(R, 8)


from . import c07 as _c07  # noqa: E402
from .shared import Renamed as _Renamed  # noqa: E402


def run(model, rep):
    rep.explanation = __doc__
    rep.assumptions = ["values returned by library calls are not tainted sequences", "ValueError subclasses (UnicodeError, binascii.Error) count as documented errors",
                       "tuple-unpacking arity errors raise ValueError (documented family)"]
    rule_a(model, rep)
    rule_b(model, rep)
    rule_c(model, rep)
    rule_d(model, rep)
    rule_f(model, rep)
    rule_g(model, rep)
    rule_h(model, rep)
    rule_i(model, rep)
    rule_j(model, rep)
    rule_m(model, rep)
    # fields cut at the wrong character let an altered setting through (django_des_crypt's duplicated salt, fixed-offset parsers)
    _t = HandlerTable(model)
    _c07.rule_h(model, _Renamed(rep, {"C07.h": "C08.k-slice-offsets"}, "C08.x-"), _t, _c07._handler_pairs(model, _t))
    # scram reads its algorithm names from the hash string: a name that is no digest must not reach a hashlib function of that name
    from . import prim as _prim8
    _prim8.rule_hash_const(model, rep, "C08.g-lenient-decoders")
    # a read-only has_backend() query must not switch the implementation that later validates untrusted cost parameters (rule shared with C03)
    from . import c03 as _c03
    _c03.rule_g(model, _Renamed(rep, {"C03.g-dryrun-forwarded": "C08.n-dryrun-forwarded", "C03.g-backend-state-owner": "C08.n-backend-state"}, "C08.x-"))
    _c07.rule_b(model, _Renamed(rep, {"C07.b": "C08.l-settings-rendered"}, "C08.x-"), _c07._handler_pairs(model, _t), _c07._libpass_pairs(model))
    from . import shared
    shared.falsy_zero_lint(model, rep, "C08.e-zero-is-a-value", lambda un: un.startswith(("passlib.handlers", "passlib.utils.handlers")),
                           lambda un, q: q.split(".")[-1] in ("__init__", "from_string", "parse") or q.split(".")[-1].startswith(("_parse", "_norm")),
                           witness="a stored hash whose numeric setting was altered to 0 is parsed as if the field were absent: it takes the class default and verifies")
    rep.minimum("C08.e-zero-is-a-value", 5)
