#!/usr/bin/env python3
"""Generate /verif/MANIFEST.json from the table in tools/manifest_table.py (single source of truth)."""
import json, os, sys
sys.path.insert(0, os.path.dirname(os.path.abspath(__file__)))
from manifest_table import CLAIMED, NOT_APPLICABLE, NOTES
BASE = json.load(open("/root/.vp/BASELINE.json"))
checks = []
for pid, c in sorted(CLAIMED.items()):
    checks.append(dict(
        property_id=pid,
        quick_cmd=f"./check {pid} --tier quick",
        thorough_cmd=f"./check {pid} --tier thorough",
        evidence_file=f"/verif/evidence/{pid}.json",
        replay_cmd_template=f"./check {pid} --replay {{path}}",
        engine="pv",
        level_claimed=dict(category=c.get("category", "other"), text=c["text"], design_ref=c.get("design_ref", f"DESIGN.md section 3, {pid}")),
        level_note=c["note"],
        technique=c["technique"],
    ))
m = dict(
    version=1,
    setup_cmd="true",
    hooks=dict(guard="THIRVONDUKR_PASSLIB_VERIF", enable="no source hooks are needed: the checks only parse /repo (the guard is unused)",
               baseline_off_cmd="cd /repo && /venv/bin/python -m pytest -ra -q -p no:cacheprovider --timeout=900 --continue-on-collection-errors",
               source_commits=[], add_only=True),
    engines=[dict(name="pv", path="/verif/pv", serves_properties=sorted(CLAIMED),
                  kind_free_text="repository-specific static analysis over the Python AST: program model (imports, C3 MRO, constant folding), "
                                 "dataflow/type/taint lattices, must-call and who-may-write rules, table validation against references generated from the standards, "
                                 "bit-provenance abstract domain, regex-language emptiness; never imports or runs /repo")],
    checks=checks,
    notes=NOTES,
    not_applicable=[dict(property_id=p, reason=r) for p, r in sorted(NOT_APPLICABLE.items())],
)
json.dump(m, open(os.path.join(os.path.dirname(os.path.dirname(os.path.abspath(__file__))), "MANIFEST.json"), "w"), indent=1)
print("claimed", sorted(CLAIMED), "n/a", sorted(NOT_APPLICABLE))
