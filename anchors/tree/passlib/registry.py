import logging
import re
from warnings import warn

from passlib import exc
from passlib.exc import ExpectedTypeError, PasslibWarning
from passlib.utils import (
    has_crypt as os_crypt_present,
)
from passlib.utils import (
    is_crypt_handler,
)
from passlib.utils import (
    unix_crypt_schemes as os_crypt_schemes,
)
from passlib.utils.decor import memoize_single_value

__all__ = [
    "register_crypt_handler_path",
    "register_crypt_handler",
    "get_crypt_handler",
    "list_crypt_handlers",
]


class _PasslibRegistryProxy:
    """proxy module passlib.hash

    this module is in fact an object which lazy-loads
    the requested password hash algorithm from wherever it has been stored.
    it acts as a thin wrapper around :func:`passlib.registry.get_crypt_handler`.
    """

    __name__ = "passlib.hash"
    __package__ = None

    def __getattr__(self, attr):
        if attr.startswith("_"):
            raise AttributeError(f"missing attribute: {attr!r}")
        handler = get_crypt_handler(attr, None)
        if handler:
            return handler
        raise AttributeError(f"unknown password hash: {attr!r}")

    def __setattr__(self, attr, value):
        if attr.startswith("_"):
            # writing to private attributes should behave normally.
            # (required so GAE can write to the __loader__ attribute).
            object.__setattr__(self, attr, value)
        else:
            # writing to public attributes should be treated
            # as attempting to register a handler.
            register_crypt_handler(value, _attr=attr)

    def __repr__(self):
        return "<proxy module 'passlib.hash'>"

    def __dir__(self):
        # this adds in lazy-loaded handler names,
        # otherwise this is the standard dir() implementation.
        attrs = set(dir(self.__class__))
        attrs.update(self.__dict__)
        attrs.update(_locations)
        return sorted(attrs)


# create single instance - available publically as 'passlib.hash'
_proxy = _PasslibRegistryProxy()


# singleton uses to detect omitted keywords
_UNSET = object()

# dict mapping name -> loaded handlers (just uses proxy object's internal dict)
_handlers = _proxy.__dict__

# dict mapping names -> import path for lazy loading.
#     * import path should be "module.path" or "module.path:attr"
#     * if attr omitted, "name" used as default.
_locations = dict(
    # NOTE: this is a hardcoded list of the handlers built into passlib,
    #       applications should call register_crypt_handler_path()
    apr_md5_crypt="passlib.handlers.md5_crypt",
    argon2="passlib.handlers.argon2",
    atlassian_pbkdf2_sha1="passlib.handlers.pbkdf2",
    bcrypt="passlib.handlers.bcrypt",
    bcrypt_sha256="passlib.handlers.bcrypt",
    bigcrypt="passlib.handlers.des_crypt",
    bsd_nthash="passlib.handlers.windows",
    bsdi_crypt="passlib.handlers.des_crypt",
    cisco_pix="passlib.handlers.cisco",
    cisco_asa="passlib.handlers.cisco",
    cisco_type7="passlib.handlers.cisco",
    cta_pbkdf2_sha1="passlib.handlers.pbkdf2",
    crypt16="passlib.handlers.des_crypt",
    des_crypt="passlib.handlers.des_crypt",
    django_argon2="passlib.handlers.django",
    django_bcrypt="passlib.handlers.django",
    django_bcrypt_sha256="passlib.handlers.django",
    django_pbkdf2_sha256="passlib.handlers.django",
    django_pbkdf2_sha1="passlib.handlers.django",
    django_salted_sha1="passlib.handlers.django",
    django_salted_md5="passlib.handlers.django",
    django_des_crypt="passlib.handlers.django",
    django_disabled="passlib.handlers.django",
    dlitz_pbkdf2_sha1="passlib.handlers.pbkdf2",
    fshp="passlib.handlers.fshp",
    grub_pbkdf2_sha512="passlib.handlers.pbkdf2",
    hex_md4="passlib.handlers.digests",
    hex_md5="passlib.handlers.digests",
    hex_sha1="passlib.handlers.digests",
    hex_sha256="passlib.handlers.digests",
    hex_sha512="passlib.handlers.digests",
    htdigest="passlib.handlers.digests",
    ldap_plaintext="passlib.handlers.ldap_digests",
    ldap_md5="passlib.handlers.ldap_digests",
    ldap_sha1="passlib.handlers.ldap_digests",
    ldap_hex_md5="passlib.handlers.roundup",
    ldap_hex_sha1="passlib.handlers.roundup",
    ldap_salted_md5="passlib.handlers.ldap_digests",
    ldap_salted_sha1="passlib.handlers.ldap_digests",
    ldap_salted_sha256="passlib.handlers.ldap_digests",
    ldap_salted_sha512="passlib.handlers.ldap_digests",
    ldap_des_crypt="passlib.handlers.ldap_digests",
    ldap_bsdi_crypt="passlib.handlers.ldap_digests",
    ldap_md5_crypt="passlib.handlers.ldap_digests",
    ldap_bcrypt="passlib.handlers.ldap_digests",
    ldap_sha1_crypt="passlib.handlers.ldap_digests",
    ldap_sha256_crypt="passlib.handlers.ldap_digests",
    ldap_sha512_crypt="passlib.handlers.ldap_digests",
    ldap_pbkdf2_sha1="passlib.handlers.pbkdf2",
    ldap_pbkdf2_sha256="passlib.handlers.pbkdf2",
    ldap_pbkdf2_sha512="passlib.handlers.pbkdf2",
    lmhash="passlib.handlers.windows",
    md5_crypt="passlib.handlers.md5_crypt",
    msdcc="passlib.handlers.windows",
    msdcc2="passlib.handlers.windows",
    mssql2000="passlib.handlers.mssql",
    mssql2005="passlib.handlers.mssql",
    mysql323="passlib.handlers.mysql",
    mysql41="passlib.handlers.mysql",
    nthash="passlib.handlers.windows",
    oracle10="passlib.handlers.oracle",
    oracle11="passlib.handlers.oracle",
    pbkdf2_sha1="passlib.handlers.pbkdf2",
    pbkdf2_sha256="passlib.handlers.pbkdf2",
    pbkdf2_sha512="passlib.handlers.pbkdf2",
    phpass="passlib.handlers.phpass",
    plaintext="passlib.handlers.misc",
    postgres_md5="passlib.handlers.postgres",
    roundup_plaintext="passlib.handlers.roundup",
    scram="passlib.handlers.scram",
    scrypt="passlib.handlers.scrypt",
    sha1_crypt="passlib.handlers.sha1_crypt",
    sha256_crypt="passlib.handlers.sha2_crypt",
    sha512_crypt="passlib.handlers.sha2_crypt",
    sun_md5_crypt="passlib.handlers.sun_md5_crypt",
    unix_disabled="passlib.handlers.misc",
)

# master regexp for detecting valid handler names
_name_re = re.compile("^[a-z][a-z0-9_]+[a-z0-9]$")

# names which aren't allowed for various reasons
# (mainly keyword conflicts in CryptContext)
_forbidden_names = frozenset(
    ["onload", "policy", "context", "all", "default", "none", "auto"]
)


def _validate_handler_name(name):
    """helper to validate handler name

    :raises ValueError:
        * if empty name
        * if name not lower case
        * if name contains double underscores
        * if name is reserved (e.g. ``context``, ``all``).
    """
    if not name:
        raise ValueError(f"handler name cannot be empty: {name!r}")
    if name.lower() != name:
        raise ValueError(f"name must be lower-case: {name!r}")
    if not _name_re.match(name):
        raise ValueError(
            "invalid name (must be 3+ characters, "
            " begin with a-z, and contain only underscore, a-z, "
            f"0-9): {name!r}"
        )
    if "__" in name:
        raise ValueError(f"name may not contain double-underscores: {name!r}")
    if name in _forbidden_names:
        raise ValueError(f"that name is not allowed: {name!r}")
    return True


def register_crypt_handler_path(name, path):
    """register location to lazy-load handler when requested.

    custom hashes may be registered via :func:`register_crypt_handler`,
    or they may be registered by this function,
    which will delay actually importing and loading the handler
    until a call to :func:`get_crypt_handler` is made for the specified name.

    :arg name: name of handler
    :arg path: module import path

    the specified module path should contain a password hash handler
    called :samp:`{name}`, or the path may contain a colon,
    specifying the module and module attribute to use.
    for example, the following would cause ``get_handler("myhash")`` to look
    for a class named ``myhash`` within the ``myapp.helpers`` module::

        >>> from passlib.registry import registry_crypt_handler_path
        >>> registry_crypt_handler_path("myhash", "myapp.helpers")

    ...while this form would cause ``get_handler("myhash")`` to look
    for a class name ``MyHash`` within the ``myapp.helpers`` module::

        >>> from passlib.registry import registry_crypt_handler_path
        >>> registry_crypt_handler_path("myhash", "myapp.helpers:MyHash")
    """
    # validate name
    _validate_handler_name(name)

    # validate path
    if path.startswith("."):
        raise ValueError("path cannot start with '.'")
    if ":" in path:
        if path.count(":") > 1:
            raise ValueError("path cannot have more than one ':'")
        if path.find(".", path.index(":")) > -1:
            raise ValueError("path cannot have '.' to right of ':'")

    # store location
    _locations[name] = path
    logging.debug("registered path to %r handler: %r", name, path)


def register_crypt_handler(handler, force=False, _attr=None):
    """register password hash handler.

    this method immediately registers a handler with the internal passlib registry,
    so that it will be returned by :func:`get_crypt_handler` when requested.

    :arg handler: the password hash handler to register
    :param force: force override of existing handler (defaults to False)
    :param _attr:
        [internal kwd] if specified, ensures ``handler.name``
        matches this value, or raises :exc:`ValueError`.

    :raises TypeError:
        if the specified object does not appear to be a valid handler.

    :raises ValueError:
        if the specified object's name (or other required attributes)
        contain invalid values.

    :raises KeyError:
        if a (different) handler was already registered with
        the same name, and ``force=True`` was not specified.
    """
    # validate handler
    if not is_crypt_handler(handler):
        raise ExpectedTypeError(handler, "password hash handler", "handler")
    if not handler:
        raise AssertionError("``bool(handler)`` must be True")

    # validate name
    name = handler.name
    _validate_handler_name(name)
    if _attr and _attr != name:
        raise ValueError(
            f"handlers must be stored only under their own name ({_attr!r} != {name!r})"
        )

    # check for existing handler
    other = _handlers.get(name)
    if other:
        if other is handler:
            logging.debug("same %r handler already registered: %r", name, handler)
            return
        if force:
            logging.warning(
                "overriding previously registered %r handler: %r", name, other
            )
        else:
            raise KeyError(
                f"another {name!r} handler has already been registered: {other!r}"
            )

    # register handler
    _handlers[name] = handler
    logging.debug("registered %r handler: %r", name, handler)


def get_crypt_handler(name, default=_UNSET):
    """return handler for specified password hash scheme.

    this method looks up a handler for the specified scheme.
    if the handler is not already loaded,
    it checks if the location is known, and loads it first.

    :arg name: name of handler to return
    :param default: optional default value to return if no handler with specified name is found.

    :raises KeyError: if no handler matching that name is found, and no default specified, a KeyError will be raised.

    :returns: handler attached to name, or default value (if specified).
    """
    # catch invalid names before we check _handlers,
    # since it's a module dict, and exposes things like __package__, etc.
    if name.startswith("_"):
        if default is _UNSET:
            raise KeyError(f"invalid handler name: {name!r}")
        return default

    # check if handler is already loaded
    try:
        return _handlers[name]
    except KeyError:
        pass

    # normalize name (and if changed, check dict again)
    assert isinstance(name, str), "name must be string instance"
    alt = name.replace("-", "_").lower()
    if alt != name:
        warn(
            "handler names should be lower-case, and use underscores instead "
            f"of hyphens: {name!r} => {alt!r}",
            PasslibWarning,
            stacklevel=2,
        )
        name = alt

        # try to load using new name
        try:
            return _handlers[name]
        except KeyError:
            pass

    # check if lazy load mapping has been specified for this driver
    path = _locations.get(name)
    if path:
        if ":" in path:
            modname, modattr = path.split(":")
        else:
            modname, modattr = path, name
        ##log.debug("loading %r handler from path: '%s:%s'", name, modname, modattr)

        # try to load the module - any import errors indicate runtime config, usually
        # either missing package, or bad path provided to register_crypt_handler_path()
        mod = __import__(modname, fromlist=[modattr], level=0)

        # first check if importing module triggered register_crypt_handler(),
        # (this is discouraged due to its magical implicitness)
        handler = _handlers.get(name)
        if handler:
            # XXX: issue deprecation warning here?
            assert is_crypt_handler(
                handler
            ), f"unexpected object: name={name!r} object={handler!r}"
            return handler

        # then get real handler & register it
        handler = getattr(mod, modattr)
        register_crypt_handler(handler, _attr=name)
        return handler

    # fail!
    if default is _UNSET:
        raise KeyError(f"no crypt handler found for algorithm: {name!r}")
    return default


def list_crypt_handlers(loaded_only=False):
    """return sorted list of all known crypt handler names.

    :param loaded_only: if ``True``, only returns names of handlers which have actually been loaded.

    :returns: list of names of all known handlers
    """
    names = set(_handlers)
    if not loaded_only:
        names.update(_locations)
    # strip private attrs out of namespace and sort.
    # TODO: make _handlers a separate list, so we don't have module namespace mixed in.
    return sorted(name for name in names if not name.startswith("_"))


# NOTE: these two functions mainly exist just for the unittests...


def _has_crypt_handler(name, loaded_only=False):
    """check if handler name is known.

    this is only useful for two cases:

    * quickly checking if handler has already been loaded
    * checking if handler exists, without actually loading it

    :arg name: name of handler
    :param loaded_only: if ``True``, returns False if handler exists but hasn't been loaded
    """
    return (name in _handlers) or (not loaded_only and name in _locations)


def _unload_handler_name(name, locations=True):
    """unloads a handler from the registry.

    .. warning::

        this is an internal function,
        used only by the unittests.

    if loaded handler is found with specified name, it's removed.
    if path to lazy load handler is found, it's removed.

    missing names are a noop.

    :arg name: name of handler to unload
    :param locations: if False, won't purge registered handler locations (default True)
    """
    if name in _handlers:
        del _handlers[name]
    if locations and name in _locations:
        del _locations[name]


# TODO: needs UTs
def _resolve(hasher, param="value"):
    """
    internal helper to resolve argument to hasher object
    """
    if is_crypt_handler(hasher):
        return hasher
    if isinstance(hasher, str):
        return get_crypt_handler(hasher)
    raise exc.ExpectedTypeError(hasher, str, param)


#: backend aliases
ANY = "any"
BUILTIN = "builtin"
OS_CRYPT = "os_crypt"


# TODO: needs UTs
def has_backend(hasher, backend=ANY, safe=False):
    """
    Test if specified backend is available for hasher.

    :param hasher:
        Hasher name or object.

    :param backend:
        Name of backend, or ``"any"`` if any backend will do.
        For hashers without multiple backends, will pretend
        they have a single backend named ``"builtin"``.

    :param safe:
        By default, throws error if backend is unknown.
        If ``safe=True``, will just return false value.

    :raises ValueError:
        * if hasher name is unknown.
        * if backend is unknown to hasher, and safe=False.

    :return:
        True if backend available, False if not available,
        and None if unknown + safe=True.
    """
    hasher = _resolve(hasher)

    if backend == ANY:
        if not hasattr(hasher, "get_backend"):
            # single backend, assume it's loaded
            return True

        # multiple backends, check at least one is loadable
        try:
            hasher.get_backend()
            return True
        except exc.MissingBackendError:
            return False

    # test for specific backend
    if hasattr(hasher, "has_backend"):
        # multiple backends
        if safe and backend not in hasher.backends:
            return None
        return hasher.has_backend(backend)

    # single builtin backend
    if backend == BUILTIN:
        return True
    if safe:
        return None
    raise exc.UnknownBackendError(hasher, backend)


# ------------------------------------------------------------------
# os crypt
# ------------------------------------------------------------------

# TODO: move unix_crypt_schemes list to here.
# os_crypt_schemes -- alias for unix_crypt_schemes above


# TODO: needs UTs
@memoize_single_value
def get_supported_os_crypt_schemes():
    """
    return tuple of schemes which :func:`crypt.crypt` natively supports.
    """
    if not os_crypt_present:
        return ()
    cache = tuple(
        name
        for name in os_crypt_schemes
        if get_crypt_handler(name).has_backend(OS_CRYPT)
    )
    if not cache:  # pragma: no cover -- sanity check
        # no idea what OS this could happen on...
        import platform

        warn(
            "crypt.crypt() function is present, but doesn't support any "
            f"formats known to passlib! (system={platform.system()!r} release={platform.release()!r})",
            exc.PasslibRuntimeWarning,
        )
    return cache


# TODO: needs UTs
def has_os_crypt_support(hasher):
    """
    check if hash is supported by native :func:`crypt.crypt` function.
    if :func:`crypt.crypt` is not present, will always return False.

    :param hasher:
        name or hasher object.

    :returns bool:
        True if hash format is supported by OS, else False.
    """
    return os_crypt_present and has_backend(hasher, OS_CRYPT, safe=True)
