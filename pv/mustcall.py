"""Must-call analysis: does every path of a function that reaches a *normal return* first pass a
call satisfying `pred` (directly or inside a repo callee whose every normal path satisfies it)?

Structured (no explicit CFG): state = "already called" boolean per fall-through path.
 * if/else: AND of the branches that fall through
 * loops: body may run zero times -> state after loop = state before
 * try: handlers start from the state before the body (an exception may precede the call)
 * raise ends a path (vacuously fine); return records the state
A call evaluated inside a `return <expr>` counts for that return."""
from __future__ import annotations

import ast

from .calls import resolve_callee
from .model import params


class MustCall:
    def __init__(self, model, pred, delegate=None, max_depth=8):
        self.model, self.pred, self.delegate, self.max_depth = model, pred, delegate, max_depth
        self.memo = {}

    def function(self, unitname, fn, cref, depth=0):
        key = (unitname, id(fn), cref)
        if key in self.memo:
            return self.memo[key]
        if depth > self.max_depth:
            return False
        self.memo[key] = True  # coinductive: recursion through the same function assumes success
        fr = _F(self, self.model.units[unitname], fn, cref, depth)
        end = fr.block(fn.body, False)
        ok = all(fr.returns) and (end is None or end is True)
        if end is not None and not fr.returns_seen and end is False:
            ok = False
        self.memo[key] = ok
        self.last_bad = fr.bad
        return ok


class _F:
    def __init__(self, mc, unit, fn, cref, depth):
        self.mc, self.unit, self.fn, self.cref, self.depth = mc, unit, fn, cref, depth
        self.returns = []
        self.returns_seen = False
        self.bad = []
        self.rebound = set()   # names re-assigned before the obligation was met (on any earlier statement)

    def expr_calls(self, e):
        """does evaluating e (certainly) perform a satisfying call?"""
        if e is None:
            return False
        for n in ast.walk(e):
            if isinstance(n, ast.Call) and not self._in_lazy(e, n):
                if self.mc.pred(n, self):
                    return True
                if self.mc.delegate and self.mc.delegate(n, self):
                    return True
                tg = resolve_callee(self.mc.model, self.unit, self.fn, self.cref, n.func)
                if tg:
                    if all(self.mc.function(un, f, cr, self.depth + 1) for (un, f, cr, b) in tg):
                        return True
        return False

    def _in_lazy(self, root, node):
        """node sits in a lambda / comprehension / conditional branch of root -> not certainly evaluated"""
        path = _path(root, node)
        for p, child in zip(path, path[1:]):
            if isinstance(p, (ast.Lambda, ast.GeneratorExp, ast.ListComp, ast.SetComp, ast.DictComp)):
                return True
            if isinstance(p, ast.IfExp) and child is not p.test:
                return True
            if isinstance(p, ast.BoolOp) and child is not p.values[0]:
                return True
        return False

    def block(self, stmts, st):
        for s in stmts:
            if st is None:
                return None
            st = self.stmt(s, st)
        return st

    def stmt(self, s, st):
        if isinstance(s, ast.Return):
            ok = st or self.expr_calls(s.value)
            self.returns.append(ok)
            self.returns_seen = True
            if not ok:
                self.bad.append(s)
            return None
        if isinstance(s, ast.Raise):
            return None
        if isinstance(s, (ast.Expr, ast.Assign, ast.AugAssign, ast.AnnAssign)):
            v = s.value
            res = st or self.expr_calls(v)
            if not res and not isinstance(s, ast.Expr):
                tg = s.targets if isinstance(s, ast.Assign) else [s.target]
                for t in tg:
                    for n in ast.walk(t):
                        if isinstance(n, ast.Name) and isinstance(n.ctx, ast.Store):
                            self.rebound.add(n.id)
            return res
        if isinstance(s, ast.Assert):
            return st
        if isinstance(s, ast.If):
            st0 = st or self.expr_calls(s.test)
            a = self.block(s.body, st0)
            b = self.block(s.orelse, st0)
            if a is None:
                return b
            if b is None:
                return a
            return a and b
        if isinstance(s, (ast.For, ast.While)):
            self.block(s.body, st)
            if s.orelse:
                self.block(s.orelse, st)
            return st
        if isinstance(s, ast.Try):
            a = self.block(s.body, st)
            if a is not None and s.orelse:
                a = self.block(s.orelse, a)
            outs = [a]
            for h in s.handlers:
                outs.append(self.block(h.body, st))
            outs = [o for o in outs if o is not None]
            res = None if not outs else all(outs)
            if s.finalbody:
                res = self.block(s.finalbody, res if res is not None else st)
            return res
        if isinstance(s, ast.With):
            st0 = st or any(self.expr_calls(i.context_expr) for i in s.items)
            return self.block(s.body, st0)
        return st


def _path(root, node):
    """list of nodes from root down to node"""
    stack = [(root, [root])]
    while stack:
        cur, p = stack.pop()
        if cur is node:
            return p
        for ch in ast.iter_child_nodes(cur):
            stack.append((ch, p + [ch]))
    return [root]
