"""passlib.crypto -- package containing cryptographic primitives used by passlib"""
