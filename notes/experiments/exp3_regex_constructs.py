"""Throw-away experiment: which regex constructs do the handlers' patterns use?"""
import ast, os, re
import re._parser as sp
from collections import Counter
ops = Counter()
pats = []
for dp, dn, fn in os.walk("/repo"):
    if "/tests" in dp or "/docs" in dp or "/.git" in dp: continue
    for f in fn:
        if not f.endswith(".py"): continue
        p = os.path.join(dp, f)
        if "/passlib/" not in p and "/libpass/" not in p: continue
        t = ast.parse(open(p).read())
        for n in ast.walk(t):
            if isinstance(n, ast.Call) and ast.unparse(n.func) in ("re.compile",):
                try:
                    pat = ast.literal_eval(n.args[0])
                except Exception:
                    continue
                flags = 0
                for a in n.args[1:]:
                    for nm in ast.walk(a):
                        if isinstance(nm, ast.Attribute): flags |= getattr(re, nm.attr)
                if isinstance(pat, bytes): pat = pat.decode("latin-1")
                pats.append((p[6:], n.lineno, flags))
                def walk(sub):
                    for op, av in sub:
                        ops[str(op)] += 1
                        if str(op) in ("MAX_REPEAT", "MIN_REPEAT"): walk(av[2])
                        elif str(op) == "SUBPATTERN": walk(av[3])
                        elif str(op) == "BRANCH":
                            for b in av[1]: walk(b)
                        elif str(op) == "IN":
                            for o2, a2 in av: ops["IN." + str(o2)] += 1
                        elif str(op) in ("ASSERT", "ASSERT_NOT", "GROUPREF", "GROUPREF_EXISTS"):
                            ops["UNSUPPORTED." + str(op)] += 1
                walk(sp.parse(pat, flags))
print(len(pats), "patterns")
for k, v in sorted(ops.items()): print(f"  {k:28} {v}")
