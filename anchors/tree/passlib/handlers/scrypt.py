"""scrypt password hash"""

import passlib.utils.handlers as uh
from passlib.crypto import scrypt as _scrypt
from passlib.utils import to_bytes
from passlib.utils.binary import b64s_decode, b64s_encode, h64
from passlib.utils.compat import bascii_to_str
from passlib.utils.decor import classproperty

__all__ = [
    "scrypt",
]


IDENT_SCRYPT = "$scrypt$"  # identifier used by passlib
IDENT_7 = "$7$"  # used by official scrypt spec

_UDOLLAR = "$"


class scrypt(  # type: ignore[misc]
    uh.ParallelismMixin,
    uh.HasRounds,
    uh.HasRawSalt,
    uh.HasRawChecksum,
    uh.HasManyIdents,
    uh.GenericHandler,
):
    """This class implements an SCrypt-based password [#scrypt-home]_ hash, and follows the :ref:`password-hash-api`.

    It supports a variable-length salt, a variable number of rounds,
    as well as some custom tuning parameters unique to scrypt (see below).

    The :meth:`~passlib.ifc.PasswordHash.using` method accepts the following optional keywords:

    :type salt: str
    :param salt:
        Optional salt string.
        If specified, the length must be between 0-1024 bytes.
        If not specified, one will be auto-generated (this is recommended).

    :type salt_size: int
    :param salt_size:
        Optional number of bytes to use when autogenerating new salts.
        Defaults to 16 bytes, but can be any value between 0 and 1024.

    :type rounds: int
    :param rounds:
        Optional number of rounds to use.
        Defaults to 16, but must be within ``range(1,32)``.

        .. warning::

            Unlike many hash algorithms, increasing the rounds value
            will increase both the time *and memory* required to hash a password.

    :type block_size: int
    :param block_size:
        Optional block size to pass to scrypt hash function (the ``r`` parameter).
        Useful for tuning scrypt to optimal performance for your CPU architecture.
        Defaults to 8.

    :type parallelism: int
    :param parallelism:
        Optional parallelism to pass to scrypt hash function (the ``p`` parameter).
        Defaults to 1.

    :type relaxed: bool
    :param relaxed:
        By default, providing an invalid value for one of the other
        keywords will result in a :exc:`ValueError`. If ``relaxed=True``,
        and the error can be corrected, a :exc:`~passlib.exc.PasslibHashWarning`
        will be issued instead. Correctable errors include ``rounds``
        that are too small or too large, and ``salt`` strings that are too long.

    .. note::

        The underlying scrypt hash function has a number of limitations
        on it's parameter values, which forbids certain combinations of settings.
        The requirements are:

        * ``linear_rounds = 2**<some positive integer>``
        * ``linear_rounds < 2**(16 * block_size)``
        * ``block_size * parallelism <= 2**30-1``

    .. todo::

        This class currently does not support configuring default values
        for ``block_size`` or ``parallelism`` via a :class:`~passlib.context.CryptContext`
        configuration.
    """

    # ------------------------
    # PasswordHash
    # ------------------------
    name = "scrypt"
    setting_kwds = ("ident", "salt", "salt_size", "rounds", "block_size", "parallelism")

    # ------------------------
    # GenericHandler
    # ------------------------
    # NOTE: scrypt supports arbitrary output sizes. since it's output runs through
    #       pbkdf2-hmac-sha256 before returning, and this could be raised eventually...
    #       but a 256-bit digest is more than sufficient for password hashing.
    # XXX: make checksum size configurable? could merge w/ argon2 code that does this.
    checksum_size = 32

    # ------------------------
    # HasManyIdents
    # ------------------------
    default_ident = IDENT_SCRYPT
    ident_values = (IDENT_SCRYPT, IDENT_7)

    # ------------------------
    # HasRawSalt
    # ------------------------
    default_salt_size = 16
    max_salt_size = 1024

    # ------------------------
    # HasRounds
    # ------------------------
    # TODO: would like to dynamically pick this based on system
    default_rounds = 16
    min_rounds = 1
    max_rounds = 31  # limited by scrypt alg
    rounds_cost = "log2"

    # TODO: make default block size configurable via using(), and deprecatable via .needs_update()

    #: default parallelism setting (min=1 currently hardcoded in mixin)
    parallelism = 1

    #: default block size setting
    block_size = 8

    @classmethod
    def using(cls, block_size=None, **kwds):
        subcls = super().using(**kwds)
        if block_size is not None:
            if isinstance(block_size, str):
                block_size = int(block_size)
            subcls.block_size = subcls._norm_block_size(
                block_size, relaxed=kwds.get("relaxed")
            )

        # make sure param combination is valid for scrypt()
        try:
            _scrypt.validate(
                1 << subcls.default_rounds, subcls.block_size, subcls.parallelism
            )
        except ValueError as err:
            raise ValueError(
                "scrypt: invalid settings combination: " + str(err)
            ) from None

        return subcls

    @classmethod
    def from_string(cls, hash):
        return cls(**cls.parse(hash))

    @classmethod
    def parse(cls, hash):
        ident, suffix = cls._parse_ident(hash)
        func = getattr(cls, f"_parse_{ident.strip(_UDOLLAR)}_string", None)
        if func:
            return func(suffix)
        raise uh.exc.InvalidHashError(cls)

    #
    # passlib's format:
    #   $scrypt$ln=<logN>,r=<r>,p=<p>$<salt>[$<digest>]
    # where:
    #   logN, r, p -- decimal-encoded positive integer, no zero-padding
    #   logN -- log cost setting
    #   r -- block size setting (usually 8)
    #   p -- parallelism setting (usually 1)
    #   salt, digest -- b64-nopad encoded bytes
    #

    @classmethod
    def _parse_scrypt_string(cls, suffix):
        # break params, salt, and digest sections
        parts = suffix.split("$")
        if len(parts) == 3:
            params, salt, digest = parts
        elif len(parts) == 2:
            params, salt = parts
            digest = None
        else:
            raise uh.exc.MalformedHashError(cls, "malformed hash")

        # break params apart
        parts = params.split(",")
        if len(parts) == 3:
            nstr, bstr, pstr = parts
            if not (
                nstr.startswith("ln=") and bstr.startswith("r=") and pstr.startswith("p=")
            ):
                raise uh.exc.MalformedHashError(cls, "malformed settings field")
        else:
            raise uh.exc.MalformedHashError(cls, "malformed settings field")

        return dict(
            ident=IDENT_SCRYPT,
            rounds=uh.parse_int(nstr[3:], param="ln", handler=cls),
            block_size=uh.parse_int(bstr[2:], param="r", handler=cls),
            parallelism=uh.parse_int(pstr[2:], param="p", handler=cls),
            salt=b64s_decode(salt.encode("ascii")),
            checksum=b64s_decode(digest.encode("ascii")) if digest else None,
        )

    #
    # official format specification defined at
    #   https://gitlab.com/jas/scrypt-unix-crypt/blob/master/unix-scrypt.txt
    # format:
    #   $7$<N><rrrrr><ppppp><salt...>[$<digest>]
    #       0  12345  67890  1
    # where:
    #   All bytes use h64-little-endian encoding
    #   N: 6-bit log cost setting
    #   r: 30-bit block size setting
    #   p: 30-bit parallelism setting
    #   salt: variable length salt bytes
    #   digest: fixed 32-byte digest
    #

    @classmethod
    def _parse_7_string(cls, suffix):
        # XXX: annoyingly, official spec embeds salt *raw*, yet doesn't specify a hash encoding.
        #      so assuming only h64 chars are valid for salt, and are ASCII encoded.

        # split into params & digest
        parts = suffix.encode("ascii").split(b"$")
        if len(parts) == 2:
            params, digest = parts
        elif len(parts) == 1:
            (params,) = parts
            digest = None
        else:
            raise uh.exc.MalformedHashError(cls, "malformed hash")

        # parse params & return
        if len(params) < 11:
            raise uh.exc.MalformedHashError(cls, "params field too short")
        return dict(
            ident=IDENT_7,
            rounds=h64.decode_int6(params[:1]),
            block_size=h64.decode_int30(params[1:6]),
            parallelism=h64.decode_int30(params[6:11]),
            salt=params[11:],
            checksum=h64.decode_bytes(digest) if digest else None,
        )

    def to_string(self):
        ident = self.ident
        if ident == IDENT_SCRYPT:
            return "$scrypt$ln=%d,r=%d,p=%d$%s$%s" % (
                self.rounds,
                self.block_size,
                self.parallelism,
                bascii_to_str(b64s_encode(self.salt)),
                bascii_to_str(b64s_encode(self.checksum)),
            )
        assert ident == IDENT_7
        salt = self.salt
        try:
            salt.decode("ascii")
        except UnicodeDecodeError:
            raise NotImplementedError(
                "scrypt $7$ hashes dont support non-ascii salts"
            ) from None
        if b"$" in salt:
            # the salt is written as-is in front of the "$" that ends it
            raise ValueError("scrypt $7$ salts can't contain '$'")
        return bascii_to_str(
            b"".join(
                [
                    b"$7$",
                    h64.encode_int6(self.rounds),
                    h64.encode_int30(self.block_size),
                    h64.encode_int30(self.parallelism),
                    self.salt,
                    b"$",
                    h64.encode_bytes(self.checksum),
                ]
            )
        )

    def __init__(self, block_size=None, **kwds):
        super().__init__(**kwds)

        # init block size
        if block_size is None:
            assert uh.validate_default_value(
                self, self.block_size, self._norm_block_size, param="block_size"
            )
        else:
            self.block_size = self._norm_block_size(block_size)

        # NOTE: if hash contains invalid complex constraint, relying on error
        #       being raised by scrypt call in _calc_checksum()

    @classmethod
    def _norm_block_size(cls, block_size, relaxed=False):
        return uh.norm_integer(
            cls, block_size, min=1, param="block_size", relaxed=relaxed
        )

    def _generate_salt(self):
        salt = super()._generate_salt()
        if self.ident == IDENT_7:
            # this format doesn't support non-ascii salts.
            # as workaround, we take raw bytes, encoded to hash64
            # (the only characters crypt() accepts in a $7$ salt)
            salt = h64.encode_bytes(salt)
        return salt

    # ===================================================================
    # backend configuration
    # NOTE: this following HasManyBackends' API, but provides it's own implementation,
    #       which actually switches the backend that 'passlib.crypto.scrypt.scrypt()' uses.
    # ===================================================================

    @classproperty
    def backends(cls):
        return _scrypt.backend_values

    @classmethod
    def get_backend(cls):
        return _scrypt.backend

    @classmethod
    def has_backend(cls, name="any"):
        try:
            cls.set_backend(name, dryrun=True)
            return True
        except uh.exc.MissingBackendError:
            return False

    @classmethod
    def set_backend(cls, name="any", dryrun=False):
        _scrypt._set_backend(name, dryrun=dryrun)

    def _calc_checksum(self, secret):
        secret = to_bytes(secret, param="secret")
        return _scrypt.scrypt(
            secret,
            self.salt,
            n=(1 << self.rounds),
            r=self.block_size,
            p=self.parallelism,
            keylen=self.checksum_size,
        )

    def _calc_needs_update(self, **kwds):
        """
        mark hash as needing update if rounds is outside desired bounds.
        """
        # XXX: for now, marking all hashes which don't have matching block_size setting
        if self.block_size != type(self).block_size:
            return True
        return super()._calc_needs_update(**kwds)
