"""Throw-away experiment (round 0): can the 76 registry names be resolved statically,
and can C3 MROs be computed from the AST alone?  Not part of the machinery."""
import ast, os, sys, json
ROOT = "/repo"
mods = {}
for pkg in ("passlib", "libpass"):
    for dp, dn, fn in os.walk(os.path.join(ROOT, pkg)):
        for f in fn:
            if f.endswith(".py") and f != "_gen_files.py":
                p = os.path.join(dp, f)
                name = os.path.relpath(p, ROOT)[:-3].replace("/", ".")
                if name.endswith(".__init__"):
                    name = name[: -len(".__init__")]
                mods[name] = ast.parse(open(p).read(), p)
print("units", len(mods))

class Mod:
    def __init__(self, name, tree):
        self.name, self.tree = name, tree
        self.imports = {}   # local name -> (module, attr|None)
        self.classes = {}
        self.assigns = {}
        for st in tree.body:
            self._top(st)
    def _top(self, st):
        if isinstance(st, ast.Import):
            for a in st.names:
                self.imports[a.asname or a.name.split(".")[0]] = (a.name if a.asname else a.name.split(".")[0], None)
        elif isinstance(st, ast.ImportFrom) and st.module:
            for a in st.names:
                self.imports[a.asname or a.name] = (st.module, a.name)
        elif isinstance(st, ast.ClassDef):
            self.classes[st.name] = st
        elif isinstance(st, ast.Assign):
            for t in st.targets:
                if isinstance(t, ast.Name):
                    self.assigns[t.id] = st.value
        elif isinstance(st, (ast.If, ast.Try)):
            for sub in ast.iter_child_nodes(st):
                if isinstance(sub, ast.stmt):
                    self._top(sub)
M = {n: Mod(n, t) for n, t in mods.items()}

def resolve_name(mod, expr):
    """resolve Name/Attribute expr in module -> (module, classname) or None"""
    if isinstance(expr, ast.Name):
        if expr.id in mod.classes:
            return (mod.name, expr.id)
        if expr.id in mod.imports:
            m, a = mod.imports[expr.id]
            if a is None:
                return None
            tgt = M.get(m)
            if tgt is None:
                sub = M.get(m + "." + a)
                return None
            return resolve_name(tgt, ast.Name(id=a))
        return None
    if isinstance(expr, ast.Attribute):
        # module alias . name
        base = expr.value
        path = []
        while isinstance(base, ast.Attribute):
            path.append(base.attr); base = base.value
        if isinstance(base, ast.Name) and base.id in mod.imports:
            m, a = mod.imports[base.id]
            modname = m if a is None else (m + "." + a if (m + "." + a) in M else m)
            for p in reversed(path):
                # uh.ifc.DisabledHash : follow import inside module
                tm = M.get(modname)
                if tm and p in tm.imports:
                    mm, aa = tm.imports[p]
                    modname = mm if aa is None else (mm + "." + aa if (mm + "." + aa) in M else mm)
                else:
                    modname = modname + "." + p
            tm = M.get(modname)
            if tm:
                return resolve_name(tm, ast.Name(id=expr.attr))
    return None

def bases(mod, cls):
    out = []
    for b in M[mod].classes[cls].bases:
        r = resolve_name(M[mod], b)
        out.append(r if r else ("?", ast.unparse(b)))
    return out

def c3(key, seen=()):
    if key[0] == "?" or key[0] not in M or key[1] not in M[key[0]].classes:
        return [key]
    bs = bases(*key)
    seqs = [c3(b) for b in bs] + [list(bs)]
    res = [key]
    while True:
        seqs = [s for s in seqs if s]
        if not seqs:
            return res
        for s in seqs:
            cand = s[0]
            if not any(cand in t[1:] for t in seqs):
                break
        else:
            raise RuntimeError("inconsistent MRO for %r" % (key,))
        res.append(cand)
        for s in seqs:
            if s[0] == cand:
                del s[0]

# registry
reg = M["passlib.registry"]
loc = {k.arg: k.value.value for k in reg.assigns["_locations"].keywords}
kinds = {}
unresolved = []
for name, modname in sorted(loc.items()):
    m = M[modname]
    if name in m.classes:
        mro = c3((modname, name))
        unk = [k for k in mro if k[0] == "?" and k[1] not in ("ABC", "Protocol")]
        kinds[name] = ("class", len(mro), unk)
    elif name in m.assigns:
        v = m.assigns[name]
        fn = ast.unparse(v.func) if isinstance(v, ast.Call) else type(v).__name__
        kinds[name] = ("assign", fn)
    else:
        kinds[name] = ("dynamic",)
        unresolved.append(name)
from collections import Counter
print(Counter(k[0] + (":" + k[1] if k[0] == "assign" else "") for k in kinds.values()))
print("needs special modelling:", unresolved)
print("classes with unknown bases:", {n: k[2] for n, k in kinds.items() if k[0] == "class" and k[2]})
for n in ("des_crypt", "bcrypt", "bcrypt_sha256", "django_bcrypt_sha256", "scrypt", "cisco_asa", "ldap_salted_sha1"):
    print(n, [c for _, c in c3((loc[n], n))])

# --- which function implements hash/verify/genhash/identify/needs_update/using per class handler
def find_method(key, attr):
    for mk in c3(key):
        if mk[0] in M and mk[1] in M[mk[0]].classes:
            for st in M[mk[0]].classes[mk[1]].body:
                if isinstance(st, (ast.FunctionDef,)) and st.name == attr:
                    return mk[1]
    return None
impl = {}
for name, modname in sorted(loc.items()):
    if kinds[name][0] == "class":
        for attr in ("hash", "verify", "genhash", "identify", "needs_update", "using", "from_string", "to_string", "_calc_checksum"):
            impl.setdefault(attr, Counter())[find_method((modname, name), attr)] += 1
for attr, c in impl.items():
    print(attr, dict(c))
