"""Throw-away experiment for C17.c: regex -> NFA, intersection emptiness, and the
shadow check over preset scheme lists x all host crypt() subsets.
The identify models below were written by hand from the source for this experiment;
the real engine extracts them.  Nothing from /repo is executed."""
import re, itertools, sys
import re._parser as sp
import re._constants as sc

ALPHA = [chr(i) for i in range(0x20, 0x7F)] + ["\n", "\x80"]   # printable ascii + newline + one non-ascii rep

def cat_match(cat, ch):
    name = str(cat)
    if name == "CATEGORY_DIGIT": return ch.isdigit()
    if name == "CATEGORY_WORD": return ch.isalnum() or ch == "_"
    if name == "CATEGORY_SPACE": return ch.isspace()
    raise NotImplementedError(name)

def in_match(items, ch, icase):
    neg = False; ok = False
    for op, av in items:
        op = str(op)
        if op == "NEGATE": neg = True
        elif op == "LITERAL": ok |= (chr(av) == ch) or (icase and chr(av).lower() == ch.lower())
        elif op == "RANGE":
            lo, hi = av
            ok |= lo <= ord(ch) <= hi or (icase and (lo <= ord(ch.lower()) <= hi or lo <= ord(ch.upper()) <= hi))
        elif op == "CATEGORY": ok |= cat_match(av, ch)
        else: raise NotImplementedError(op)
    return ok != neg

class NFA:
    def __init__(self): self.n = 0; self.eps = {}; self.tr = {}
    def new(self): self.n += 1; return self.n - 1
    def e(self, a, b): self.eps.setdefault(a, set()).add(b)
    def t(self, a, pred, b): self.tr.setdefault(a, []).append((pred, b))

def build(nfa, seq, start, icase, dotall):
    cur = start
    for op, av in seq:
        op = str(op)
        if op == "LITERAL":
            nxt = nfa.new(); c = chr(av)
            nfa.t(cur, (lambda ch, c=c: ch == c or (icase and ch.lower() == c.lower())), nxt); cur = nxt
        elif op == "NOT_LITERAL":
            nxt = nfa.new(); c = chr(av); nfa.t(cur, (lambda ch, c=c: ch != c), nxt); cur = nxt
        elif op == "ANY":
            nxt = nfa.new(); nfa.t(cur, (lambda ch: dotall or ch != "\n"), nxt); cur = nxt
        elif op == "IN":
            nxt = nfa.new(); nfa.t(cur, (lambda ch, av=av: in_match(av, ch, icase)), nxt); cur = nxt
        elif op == "AT":
            pass  # anchors: all patterns here are used with match() and end with $ or are prefix tests
        elif op == "SUBPATTERN":
            cur = build(nfa, av[3], cur, icase, dotall)
        elif op == "BRANCH":
            end = nfa.new()
            for alt in av[1]:
                s = nfa.new(); nfa.e(cur, s); e2 = build(nfa, alt, s, icase, dotall); nfa.e(e2, end)
            cur = end
        elif op in ("MAX_REPEAT", "MIN_REPEAT"):
            lo, hi, sub = av
            for _ in range(lo):
                cur = build(nfa, sub, cur, icase, dotall)
            if hi == sc.MAXREPEAT:
                s = nfa.new(); nfa.e(cur, s); e2 = build(nfa, sub, s, icase, dotall); nfa.e(e2, s); cur = s
            else:
                end = nfa.new(); nfa.e(cur, end)
                for _ in range(hi - lo):
                    cur = build(nfa, sub, cur, icase, dotall); nfa.e(cur, end)
                cur = end
        else:
            raise NotImplementedError(op)
    return cur

def compile_lang(pattern, flags=0, open_end=False):
    """language of strings s with re.match(pattern, s) (anchored at start; '$' respected via open_end=False)"""
    nfa = NFA(); s = nfa.new()
    icase = bool(flags & re.I); dotall = bool(flags & re.S)
    e = build(nfa, sp.parse(pattern, flags), s, icase, dotall)
    if open_end:
        nfa.t(e, (lambda ch: True), e)
    return nfa, s, e

def closure(nfa, S):
    S = set(S); st = list(S)
    while st:
        x = st.pop()
        for y in nfa.eps.get(x, ()):
            if y not in S: S.add(y); st.append(y)
    return frozenset(S)

def intersect_witness(A, B):
    (na, sa, ea), (nb, sb, eb) = A, B
    start = (closure(na, {sa}), closure(nb, {sb}))
    seen = {start: ""}; q = [start]
    while q:
        X, Y = cur = q.pop(0)
        if ea in X and eb in Y: return seen[cur]
        for ch in ALPHA:
            X2 = closure(na, {b for x in X for p, b in na.tr.get(x, ()) if p(ch)})
            if not X2: continue
            Y2 = closure(nb, {b for y in Y for p, b in nb.tr.get(y, ()) if p(ch)})
            if not Y2: continue
            if (X2, Y2) not in seen:
                seen[(X2, Y2)] = seen[cur] + ch; q.append((X2, Y2))
    return None

H64 = r"[./0-9A-Za-z]"
def prefix(*ps): return ("(?:" + "|".join(re.escape(p) for p in ps) + ")", re.S, True)
MODELS = {   # name -> (pattern, flags, open_end) ; catch-alls flagged separately
    "sha512_crypt": prefix("$6$"), "sha256_crypt": prefix("$5$"), "md5_crypt": prefix("$1$"),
    "apr_md5_crypt": prefix("$apr1$"), "sha1_crypt": prefix("$sha1$"),
    "bcrypt": prefix("$2$", "$2a$", "$2x$", "$2y$", "$2b$"),
    "des_crypt": (r"[./a-z0-9]{2}(?:[./a-z0-9]{11})?$", re.I, False),
    "bsdi_crypt": (r"_[./a-z0-9]{4}[./a-z0-9]{4}(?:[./a-z0-9]{11})?$", re.I, False),
    "unix_disabled": (r"(?:[*!].*)?$", re.S, False),
    "bsd_nthash": (r"\$3\$\$[0-9a-fA-F]{32}$", 0, False),
    "phpass": prefix("$P$", "$H$"),
    "plaintext": (r".*$", re.S, False),
    "ldap_sha1": prefix("{SHA}"), "ldap_md5": prefix("{MD5}"),
    "ldap_salted_sha1": (r"\{SSHA\}[+/a-zA-Z0-9]{32,}={0,2}$", 0, False),
    "ldap_salted_md5": (r"\{SMD5\}[+/a-zA-Z0-9]{27,}={0,2}$", 0, False),
    "ldap_salted_sha256": (r"\{SSHA256\}[+/a-zA-Z0-9]{48,}={0,2}$", 0, False),
    "ldap_salted_sha512": (r"\{SSHA512\}[+/a-zA-Z0-9]{91,}={0,2}$", 0, False),
    "ldap_plaintext": None,   # complement language: handled as catch-all (must be last among non-{X} schemes)
    "hex_md5": (r"[0-9a-fA-F]{32}$", 0, False),
    "django_salted_sha1": prefix("sha1$"), "django_salted_md5": prefix("md5$"), "django_des_crypt": prefix("crypt$"),
    "django_disabled": prefix("!"), "django_pbkdf2_sha256": prefix("pbkdf2_sha256$"), "django_pbkdf2_sha1": prefix("pbkdf2_sha1$"),
    "django_bcrypt": prefix("bcrypt$"), "django_bcrypt_sha256": prefix("bcrypt_sha256$"), "django_argon2": prefix("argon2$argon2i$"),
    "mysql41": (r"\*[0-9a-fA-F]{40}$", 0, False), "mysql323": (r"[0-9a-fA-F]{16}$", 0, False),
    "postgres_md5": (r"md5[0-9a-fA-F]{32}$", 0, False),
    "ldap_hex_sha1": (r"\{SHA\}[0-9a-fA-F]{40}$", 0, False), "ldap_hex_md5": (r"\{MD5\}[0-9a-fA-F]{32}$", 0, False),
    "roundup_plaintext": prefix("{plaintext}"), "ldap_pbkdf2_sha1": prefix("{PBKDF2}"),
}
for n in ["sha512_crypt", "sha256_crypt", "sha1_crypt", "bcrypt", "md5_crypt", "bsdi_crypt", "des_crypt"]:
    pat, fl, oe = MODELS[n]
    MODELS["ldap_" + n] = (re.escape("{CRYPT}") + pat, fl, oe)
CATCHALL = {"plaintext", "ldap_plaintext"}
LANG = {k: compile_lang(*v) for k, v in MODELS.items() if v}

def shadows(schemes):
    out = []
    for i, a in enumerate(schemes):
        for b in schemes[i + 1:]:
            if b in CATCHALL: continue
            if a == "ldap_plaintext":
                # accepts everything not of the form {word}...: shadows b unless b's language is inside {\w+}.*
                w = intersect_witness(LANG[b], compile_lang(r"(?!)", 0)) if False else None
                # conservative experiment: b must start with a literal '{'
                if not MODELS[b][0].startswith(("\\{", "(?:\\{")): out.append((a, b, "<non-{X} string>"))
                continue
            w = intersect_witness(LANG[a], LANG[b])
            if w is not None: out.append((a, b, w))
    return out

unix = ["sha512_crypt", "sha256_crypt", "sha1_crypt", "bcrypt", "md5_crypt", "bsdi_crypt", "des_crypt"]
std_ldap = ["ldap_salted_sha512", "ldap_salted_sha256", "ldap_salted_sha1", "ldap_salted_md5", "ldap_sha1", "ldap_md5", "ldap_plaintext"]
dj10 = ["django_salted_sha1", "django_salted_md5", "django_des_crypt", "hex_md5", "django_disabled"]
dj14 = ["django_pbkdf2_sha256", "django_pbkdf2_sha1", "django_bcrypt"] + dj10
dj16 = dj14[:1] + ["django_bcrypt_sha256"] + dj14[1:]
dj110 = ["django_pbkdf2_sha256", "django_pbkdf2_sha1", "django_argon2", "django_bcrypt", "django_bcrypt_sha256", "django_disabled"]
PRESETS = {
    "custom_app": ["sha512_crypt", "sha256_crypt"], "django10": dj10, "django14": dj14, "django16": dj16, "django110": dj110,
    "django21": [s for s in dj110 if s != "django_bcrypt"],
    "ldap_nocrypt": std_ldap, "ldap": std_ldap + ["ldap_" + n for n in unix],
    "mysql3": ["mysql323"], "mysql4": ["mysql41", "mysql323"], "postgres": ["postgres_md5"],
    "phpass": ["bcrypt", "phpass", "bsdi_crypt"], "phpbb3": ["phpass"],
    "roundup10": ["ldap_hex_sha1", "ldap_hex_md5", "ldap_des_crypt", "roundup_plaintext"],
    "roundup15": ["ldap_hex_sha1", "ldap_hex_md5", "ldap_des_crypt", "roundup_plaintext", "ldap_pbkdf2_sha1"],
    "linux": ["sha512_crypt", "sha256_crypt", "md5_crypt", "des_crypt", "unix_disabled"],
    "freebsd": ["bcrypt", "md5_crypt", "bsd_nthash", "des_crypt", "unix_disabled"],
    "openbsd": ["bcrypt", "md5_crypt", "bsdi_crypt", "des_crypt", "unix_disabled"],
    "netbsd": ["bcrypt", "sha1_crypt", "md5_crypt", "bsdi_crypt", "des_crypt", "unix_disabled"],
}
total = 0
for name, schemes in PRESETS.items():
    s = shadows(schemes); total += len(schemes) * (len(schemes) - 1) // 2
    print(f"{name:12} {len(schemes)} schemes  shadows: {s}")
# host-dependent: all ordered subsets of unix schemes
def htpasswd(os_schemes, fixed):
    schemes = ["bcrypt", "sha256_crypt", "sha512_crypt", "des_crypt", "apr_md5_crypt", "ldap_sha1", "plaintext"]
    schemes.extend(os_schemes)
    preferred = schemes[:3] + ["apr_md5_crypt"] + schemes
    schemes = sorted(set(schemes), key=preferred.index)
    if fixed:
        schemes.remove("plaintext"); schemes.append("plaintext")
    return schemes
for fixed in (False, True):
    bad = 0; n = 0; example = None
    for r in range(len(unix) + 1):
        for sub in itertools.combinations(unix, r):
            n += 1
            for preset in (htpasswd(list(sub), fixed), (list(sub) + ["unix_disabled"]) if sub else []):
                s = shadows(preset)
                if s:
                    bad += 1; example = example or (sub, s[:2])
    print("htpasswd+host over", n, "host subsets; fixed =", fixed, "-> configurations with shadowing:", bad, example)
