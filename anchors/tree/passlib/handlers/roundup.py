"""Roundup issue tracker hashes"""

import passlib.utils.handlers as uh

# local
__all__ = [
    "roundup_plaintext",
    "ldap_hex_md5",
    "ldap_hex_sha1",
]

roundup_plaintext = uh.PrefixWrapper(
    "roundup_plaintext", "plaintext", prefix="{plaintext}", lazy=True
)

# NOTE: these are here because they're currently only known to be used by roundup
ldap_hex_md5 = uh.PrefixWrapper("ldap_hex_md5", "hex_md5", "{MD5}", lazy=True)
ldap_hex_sha1 = uh.PrefixWrapper("ldap_hex_sha1", "hex_sha1", "{SHA}", lazy=True)
