"""Per-property claims.  A property appears either in CLAIMED or in NOT_APPLICABLE."""
STATIC_NOTE = ("Trusted base: CPython's ast / re._parser and the pv engine. Import aliases, class hierarchy (C3 MRO) and constants are "
               "resolved statically; a construct the rules cannot recognise is reported as ANALYSIS-ERROR (exit 2), never as a pass or a violation. "
               "Only the structural clauses named in level_claimed.text are decided, not the behaviour over all inputs.")
CLAIMED = {
 "C06": dict(
  text="Decides structural necessary conditions of uniform generation at every site: (a) every random draw in passlib/libpass originates from "
       "passlib.utils.rng (= random.SystemRandom()), an rng parameter, secrets.*, os.urandom or bcrypt.gensalt; (b) getrandbytes/getrandstr split the "
       "drawn integer into non-overlapping digits of the declared radix (mask+1 == radix == 256 / len(charset), bits drawn == 8*count, range == "
       "letters**count, trip count == count); (c) salt/key generators pass the class's declared size and alphabet; (d) entropy->length formulas are "
       "ceil(E/log2 N) with short lengths raised; (e) 'salt' is refused as a context option before any store. Not decided: quality of the OS source, "
       "statistical uniformity of outputs.",
  note=STATIC_NOTE,
  technique="who-may-call + polynomial-normalised radix/mask/shift agreement on the extraction loops + must-precede on context option stores"),
}

CLAIMED["C01"] = dict(
  text="Decides that hash and verify paths of every shipped hasher are wired to the same format and digest function: libpass hashers render through the "
       "info class their own verify/identify parse with (and base classes never bypass a variant slot with a literal); every verify() in the tree returns "
       "only a constant-time comparison whose operands are a recomputed digest and the stored one, a delegation, or literal False for disabled / foreign "
       "hashes; GenericHandler.hash/verify/genhash and the user/encoding context plumbing have the documented dataflow; a str/bytes type-flow analysis from "
       "every registered handler's digest entry point proves the secret reaches every hash/cipher primitive as bytes, encoded as UTF-8 (or the declared "
       "encoding); PrefixWrapper wrap/unwrap are inverse and every entry point unwraps before delegating. Not decided: determinism and collision freedom "
       "of the digests, i.e. the executed round trip and the 'False for every other password' half.",
  note=STATIC_NOTE,
  technique="class-hierarchy agreement rules + interprocedural str/bytes type-flow (abstract interpretation) + return-idiom classification")
CLAIMED["C03"] = dict(
  text="Decides: every lazily bound backend global that is called is bound on some path and in its loader (def-use, whole tree); every advertised backend "
       "has a loader installing the implementation of the same name and returning True only afterwards; each OS-crypt path calls safe_crypt with the caller's "
       "secret, falls back to the builtin on None, validates prefix/length and slices exactly checksum_size characters; the secret handed to bcrypt.hashpw is "
       "bounded to 72 bytes on every path; safe_crypt maps non-UTF-8 to None, refuses NUL and calls crypt() only under its lock; backend state is written only "
       "inside set_backend's locked region and dry runs install nothing; ident dispatch chains and scrypt backend tables are exhaustive and argument orders "
       "agree. Not decided: equality of digests computed by two backends.",
  note=STATIC_NOTE,
  technique="def-use on module globals, who-may-write, sibling agreement of loaders/OS paths, symbolic length agreement (polynomial normaliser), path-bounded slice check")
CLAIMED["C05"] = dict(
  text="Decides: (a) every length compared against a truncation limit is measured on bytes (str/bytes type flow from each truncating handler's digest "
       "entry to the comparison); (b) validate_secret(secret) is called on every normally-returning path of hash/verify/genhash of all 76 registered hashers "
       "(must-call with callee summaries through the MRO); (c) every crypt()-compatible builtin and bcrypt refuse NUL before first use; (d) the truncation "
       "error is raised only when a new hash is made and with `>`; (e) declared truncate_size equals the bytes the algorithm consumes. Not decided: that "
       "exactly `limit` bytes influence the digest.",
  note=STATIC_NOTE,
  technique="str/bytes type-flow with len() hook + must-call analysis with summaries + sibling guard rule")

CLAIMED["C08"] = dict(
  text="Decides, for every parser root of all registered hashers (identify/verify/needs_update/from_string/genhash/parsehash, dynamic-dispatch helpers, "
       "PrefixWrapper, libpass inspectors and hashers): no content-dependent assert, no constant index into hash-derived data without a dominating "
       "length/truthiness guard, no table lookup keyed by hash data outside KeyError handling (taint analysis with path-sensitive guards and callee "
       "summaries); a str|bytes hash is normalised before any text operation (type flow + PrefixWrapper sibling rule); base64 decode-map lookups map "
       "KeyError to ValueError; parsed digests are size/charset-validated and verify compares the whole digest. Not decided: that an altered digest "
       "differs after recomputation.",
  note=STATIC_NOTE,
  technique="interprocedural taint analysis (hash string -> exception-raising sinks) + str/bytes type flow + sibling rule")
CLAIMED["C09"] = dict(
  text="Decides for all using() definitions: a fresh subclass is created once via super().using(**kwds) and returned on every path; attribute stores target "
       "only that subclass; stored values pass a _norm_/_clip_/norm_integer/as_bool sanitiser or a dominating raising guard; no data read through the stale "
       "parent `cls` after the subclass exists except the inherit-default idiom; clamp helpers raise in strict mode and clamp in relaxed mode for both bounds; "
       "generated rounds are drawn between clipped bounds, the default is re-clipped after min/max/default are stored, generator overrides stay inside the "
       "window; every stored attribute is read outside using(); PrefixWrapper forwards writes only to a subclass it created. Not decided: numeric behaviour "
       "over all option combinations.",
  note=STATIC_NOTE,
  technique="who-may-write + sanitiser-before-store dataflow + stale-receiver rule + shape conformance of clamp helpers")
CLAIMED["C19"] = dict(
  text="Decides the lock-set / publication-order discipline of lazy first use: both self-initialising classes run _lazy_init under a threading lock, re-check "
       "the pending state inside it, keep a guard read by __getattribute__ blocking until initialisation is complete, and are entered through the defining "
       "class; table loaders' readers test the global assigned last; backend state is published after the loader installed the implementation, dry runs "
       "install nothing; class-/module-level state is written only by the audited initialisation functions; registry registration of the identical object is "
       "idempotent. One recorded finding (F17, _stub_requires_backend raising on a concurrently finished set_backend) is listed in known_findings.json. "
       "Not decided: interleavings outside these constructs.",
  note=STATIC_NOTE,
  technique="lock-set + publish-last ordering over linearised initialiser bodies + who-may-write whitelist")

NOT_APPLICABLE = {p: "check under construction in this session (will be claimed once its rules are built and validated on the clean tree)"
                  for p in ["C%02d" % i for i in range(1, 21)] if p not in CLAIMED}
NOTES = ("All checks are static: ./check <ID> parses /repo's working tree on every run (81 units), evaluates the property's rules at every site and "
         "writes /verif/evidence/<ID>.json. exit 0 = all obligations hold (KNOWN-FINDING lines allowed), 1 = VIOLATION line(s), 2 = ANALYSIS-ERROR "
         "(anchor vanished / idiom not recognised). known_findings.json lists recorded and fixed defects.")
