#!/venv/bin/python
"""Evaluate seeded faults: apply each patch to /repo, run the quick checks, revert.
usage: seedeval.py <dir-with-Cxx/k/patch.diff> [--props C01,C03] [--only C13/2]
Never leaves /repo modified (git checkout -- . in finally)."""
import json, os, subprocess, sys, glob
root = sys.argv[1]
props = None
only = None
for i, a in enumerate(sys.argv):
    if a == "--props": props = sys.argv[i + 1].split(",")
    if a == "--only": only = sys.argv[i + 1]
VERIF = os.path.dirname(os.path.dirname(os.path.abspath(__file__)))
man = json.load(open(os.path.join(VERIF, "MANIFEST.json")))
claimed = [c["property_id"] for c in man["checks"]]
if props is None:
    props = claimed
assert subprocess.run(["git", "-C", "/repo", "status", "--porcelain"], capture_output=True, text=True).stdout.strip() == "", "/repo not clean"
rows = []
for patch in sorted(glob.glob(os.path.join(root, "C*", "*", "patch.diff")) + glob.glob(os.path.join(root, "C*-*", "patch.diff"))):
    if os.path.basename(os.path.dirname(patch)).count("-"):
        pid, k = os.path.basename(os.path.dirname(patch)).split("-", 1)
    else:
        pid = patch.split(os.sep)[-3]; k = patch.split(os.sep)[-2]
    if only and only != f"{pid}/{k}": continue
    title = ""
    try: title = json.load(open(os.path.join(os.path.dirname(patch), "meta.json"))).get("title", "")
    except Exception: pass
    r = subprocess.run(["git", "-C", "/repo", "apply", "--3way", patch], capture_output=True, text=True)
    if r.returncode != 0:
        r = subprocess.run(["git", "-C", "/repo", "apply", patch], capture_output=True, text=True)
    if r.returncode != 0:
        rows.append((pid, k, "APPLY-FAILED", title)); subprocess.run(["git","-C","/repo","reset","-q"]); subprocess.run(["git", "-C", "/repo", "checkout", "--", "."]); continue
    try:
        hits = []
        env = dict(os.environ, PV_EVIDENCE_DIR="/tmp/seedeval_evidence")
        for p in props:
            c = subprocess.run([os.path.join(VERIF, "check"), p], capture_output=True, text=True, cwd=VERIF, env=env)
            if c.returncode == 1: 
                rule = [l.strip() for l in c.stdout.splitlines() if l.strip().startswith("rule=")]
                hits.append(f"{p}:{rule[0].split()[0][5:] if rule else '?'}")
            elif c.returncode == 2:
                hits.append(f"{p}:ERR")
        own = [h for h in hits if h.startswith(pid + ":") and not h.endswith(":ERR")]
        rows.append((pid, k, ("CAUGHT " if own else ("other  " if [h for h in hits if not h.endswith(':ERR')] else "MISSED ")) + ",".join(hits), title))
    finally:
        subprocess.run(["git", "-C", "/repo", "reset", "-q"]); subprocess.run(["git", "-C", "/repo", "checkout", "--", "."])
for r in rows:
    print(f"{r[0]}/{r[1]}: {r[2]:60} | {r[3][:90]}")
print("caught-by-own:", sum(1 for r in rows if r[2].startswith("CAUGHT")), "of", len(rows))
