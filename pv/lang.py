"""Regular languages over a small representative alphabet: regex (re._parser AST) -> NFA -> DFA,
prefix / fixed-shape languages, complement, left quotient, literal-prefix concatenation,
intersection witness (product BFS).  Used to decide whether two hashers' identify() languages overlap."""
from __future__ import annotations

import re
import re._parser as sp
import re._constants as sc

#: representative alphabet: printable ASCII, a few controls, one non-ASCII stand-in
ALPHA = [chr(i) for i in range(0x20, 0x7F)] + ["\n", "\t", "\x00", "\x80"]


class Unsupported(Exception):
    pass


def _cat_match(cat, ch):
    name = str(cat)
    if name == "CATEGORY_DIGIT":
        return ch.isdigit()
    if name == "CATEGORY_NOT_DIGIT":
        return not ch.isdigit()
    if name == "CATEGORY_WORD":
        return ch.isalnum() or ch == "_"
    if name == "CATEGORY_NOT_WORD":
        return not (ch.isalnum() or ch == "_")
    if name == "CATEGORY_SPACE":
        return ch.isspace()
    if name == "CATEGORY_NOT_SPACE":
        return not ch.isspace()
    raise Unsupported(name)


def _in_match(items, ch, icase):
    neg = ok = False
    for op, av in items:
        op = str(op)
        if op == "NEGATE":
            neg = True
        elif op == "LITERAL":
            ok |= (chr(av) == ch) or (icase and chr(av).lower() == ch.lower())
        elif op == "RANGE":
            lo, hi = av
            ok |= lo <= ord(ch) <= hi or (icase and (lo <= ord(ch.lower()) <= hi or lo <= ord(ch.upper()) <= hi))
        elif op == "CATEGORY":
            ok |= _cat_match(av, ch)
        else:
            raise Unsupported(op)
    return ok != neg


class NFA:
    def __init__(self):
        self.n = 0
        self.eps = {}
        self.tr = {}

    def new(self):
        self.n += 1
        return self.n - 1

    def e(self, a, b):
        self.eps.setdefault(a, set()).add(b)

    def t(self, a, chars, b):
        self.tr.setdefault(a, []).append((frozenset(chars), b))


def _chars(pred):
    return [c for c in ALPHA if pred(c)]


def _build(nfa, seq, start, icase, dotall):
    cur = start
    for op, av in seq:
        op = str(op)
        if op == "LITERAL":
            nxt = nfa.new()
            c = chr(av)
            nfa.t(cur, _chars(lambda ch: ch == c or (icase and ch.lower() == c.lower())), nxt)
            cur = nxt
        elif op == "NOT_LITERAL":
            nxt = nfa.new()
            c = chr(av)
            nfa.t(cur, _chars(lambda ch: ch != c), nxt)
            cur = nxt
        elif op == "ANY":
            nxt = nfa.new()
            nfa.t(cur, _chars(lambda ch: dotall or ch != "\n"), nxt)
            cur = nxt
        elif op == "IN":
            nxt = nfa.new()
            nfa.t(cur, _chars(lambda ch: _in_match(av, ch, icase)), nxt)
            cur = nxt
        elif op == "AT":
            pass  # ^ at the start / $ at the end: handled by the caller (anchored_end)
        elif op == "SUBPATTERN":
            cur = _build(nfa, av[3], cur, icase, dotall)
        elif op == "BRANCH":
            end = nfa.new()
            for alt in av[1]:
                s = nfa.new()
                nfa.e(cur, s)
                e2 = _build(nfa, alt, s, icase, dotall)
                nfa.e(e2, end)
            cur = end
        elif op in ("MAX_REPEAT", "MIN_REPEAT"):
            lo, hi, sub = av
            for _ in range(lo):
                cur = _build(nfa, sub, cur, icase, dotall)
            if hi == sc.MAXREPEAT:
                s = nfa.new()
                nfa.e(cur, s)
                e2 = _build(nfa, sub, s, icase, dotall)
                nfa.e(e2, s)
                cur = s
            else:
                end = nfa.new()
                nfa.e(cur, end)
                for _ in range(hi - lo):
                    cur = _build(nfa, sub, cur, icase, dotall)
                    nfa.e(cur, end)
                cur = end
        else:
            raise Unsupported(op)
    return cur


def group_dfa(pattern, flags, name):
    """language of the text one capture group can hold (its sub-pattern on its own); name: group name or 1-based index"""
    if isinstance(pattern, bytes):
        pattern = pattern.decode("latin-1")
    parsed = sp.parse(pattern, flags)
    gid = parsed.state.groupdict.get(name) if isinstance(name, str) else name
    found = []

    def walk(seq):
        for op, av in seq:
            o = str(op)
            if o == "SUBPATTERN":
                if av[0] == gid:
                    found.append(av[3])
                walk(av[3])
            elif o in ("MAX_REPEAT", "MIN_REPEAT"):
                walk(av[2])
            elif o == "BRANCH":
                for alt in av[1]:
                    walk(alt)
    walk(parsed)
    if not found:
        return None
    nfa = NFA()
    s = nfa.new()
    e = _build(nfa, found[0], s, bool(flags & re.I), bool(flags & re.S))
    return DFA.from_nfa(nfa, s, e, f"group {name} of /{pattern[:30]}/")


def _ends_with_dollar(parsed):
    items = list(parsed)
    while items:
        op, av = items[-1]
        if str(op) == "AT" and "END" in str(av):
            return "strict" if "END_STRING" in str(av) else True   # \\Z vs `$`
        if str(op) == "SUBPATTERN":
            items = list(av[3])
            continue
        return False
    return False


class DFA:
    """complete DFA over ALPHA: trans[state][char] -> state; state 0.. ; dead state explicit"""

    def __init__(self, trans, start, accept, desc=""):
        self.trans, self.start, self.accept, self.desc = trans, start, accept, desc

    # ------------------------------------------------------------ constructors
    @staticmethod
    def from_nfa(nfa, s, e, desc=""):
        def closure(S):
            S = set(S)
            st = list(S)
            while st:
                x = st.pop()
                for y in nfa.eps.get(x, ()):
                    if y not in S:
                        S.add(y)
                        st.append(y)
            return frozenset(S)
        start = closure({s})
        ids = {start: 0}
        trans = []
        accept = set()
        work = [start]
        while work:
            cur = work.pop()
            i = ids[cur]
            while len(trans) <= i:
                trans.append({})
            if e in cur:
                accept.add(i)
            for ch in ALPHA:
                nx = set()
                for x in cur:
                    for chars, b in nfa.tr.get(x, ()):
                        if ch in chars:
                            nx.add(b)
                nx = closure(nx)
                if nx not in ids:
                    ids[nx] = len(ids)
                    work.append(nx)
                trans[i][ch] = ids[nx]
        while len(trans) < len(ids):
            trans.append({})
        for i, t in enumerate(trans):
            if not t:
                # unreached placeholder; make it dead
                for ch in ALPHA:
                    t[ch] = ids.get(frozenset(), i)
        return DFA(trans, 0, accept, desc)

    @staticmethod
    def from_regex(pattern, flags=0, desc=None):
        """language of strings s with re.compile(pattern, flags).match(s)  (anchored at start; open end unless `$`)"""
        if isinstance(pattern, bytes):
            pattern = pattern.decode("latin-1")
        parsed = sp.parse(pattern, flags)
        nfa = NFA()
        s = nfa.new()
        icase = bool(flags & re.I)
        dotall = bool(flags & re.S)
        e = _build(nfa, parsed, s, icase, dotall)
        end = _ends_with_dollar(parsed)
        if not end:
            nfa.t(e, ALPHA, e)
        elif end == "strict":
            pass    # \\Z: the match ends where the string ends
        else:
            # `$` also matches before a trailing newline
            e2 = nfa.new()
            nfa.t(e, ["\n"], e2)
            e3 = nfa.new()
            nfa.e(e, e3)
            nfa.e(e2, e3)
            e = e3
        return DFA.from_nfa(nfa, s, e, desc or f"match /{pattern[:40]}/")

    @staticmethod
    def prefixes(ps, desc=None):
        return DFA.from_regex("(?:" + "|".join(re.escape(p) for p in ps) + ")", re.S, desc or f"startswith {tuple(ps)!r}")

    @staticmethod
    def fixed(prefix, chars, size, icase=False, desc=None):
        """prefix followed by exactly `size` characters out of `chars` (end anchored, no trailing newline)"""
        cls = "".join(re.escape(c) for c in chars)
        pat = re.escape(prefix) + (f"[{cls}]{{{size}}}" if size else "") + "$"
        d = DFA.from_regex(pat, (re.I if icase else 0), desc or f"{prefix!r} + {size} of {len(chars)} chars")
        return d.without_trailing_newline()

    @staticmethod
    def anything(desc="any string"):
        return DFA.from_regex("(?s).*", re.S, desc)

    # ------------------------------------------------------------ operations
    def without_trailing_newline(self):
        # accept only strings whose last char is not '\n' (or empty)
        trans, acc = self.trans, set()
        # build product with 1-bit memory "last char was newline"
        ids, out, accept = {}, [], set()
        start = (self.start, False)
        ids[start] = 0
        work = [start]
        while work:
            cur = work.pop()
            i = ids[cur]
            while len(out) <= i:
                out.append({})
            if cur[0] in self.accept and not cur[1]:
                accept.add(i)
            for ch in ALPHA:
                nx = (trans[cur[0]][ch], ch == "\n")
                if nx not in ids:
                    ids[nx] = len(ids)
                    work.append(nx)
                out[i][ch] = ids[nx]
        return DFA(out, 0, accept, self.desc)

    def complement(self, desc=None):
        return DFA(self.trans, self.start, set(range(len(self.trans))) - set(self.accept), desc or f"not({self.desc})")

    def intersect(self, other, desc=None):
        ids, out, accept = {}, [], set()
        start = (self.start, other.start)
        ids[start] = 0
        work = [start]
        while work:
            cur = work.pop()
            i = ids[cur]
            while len(out) <= i:
                out.append({})
            if cur[0] in self.accept and cur[1] in other.accept:
                accept.add(i)
            for ch in ALPHA:
                nx = (self.trans[cur[0]][ch], other.trans[cur[1]][ch])
                if nx not in ids:
                    ids[nx] = len(ids)
                    work.append(nx)
                out[i][ch] = ids[nx]
        return DFA(out, 0, accept, desc or f"({self.desc}) & ({other.desc})")

    def union(self, other, desc=None):
        return self.complement().intersect(other.complement()).complement(desc or f"({self.desc}) | ({other.desc})")

    def left_quotient(self, s):
        """{ r : s.r in L }"""
        st = self.start
        for ch in s:
            st = self.trans[st][ch if ch in self.trans[st] else "\x80"]
        return DFA(self.trans, st, self.accept, f"({self.desc}) after {s!r}")

    def prepend(self, s, desc=None):
        """{ s.r : r in L }"""
        n = len(self.trans)
        trans = [dict(t) for t in self.trans]
        dead = len(trans)
        trans.append({ch: dead for ch in ALPHA})
        chain = []
        for _ in s:
            chain.append(len(trans))
            trans.append({ch: dead for ch in ALPHA})
        if not s:
            return DFA(trans, self.start, set(self.accept), desc or self.desc)
        for i, ch in enumerate(s):
            nxt = chain[i + 1] if i + 1 < len(s) else self.start
            trans[chain[i]][ch] = nxt
        return DFA(trans, chain[0], set(self.accept), desc or f"{s!r} + ({self.desc})")

    def nonempty_only(self):
        return self.intersect(DFA.from_regex("(?s).", re.S, "non-empty"), self.desc)

    def witness(self, other=None):
        """shortest string in L (or in L & other); None if empty"""
        d = self if other is None else self.intersect(other)
        seen = {d.start: ""}
        q = [d.start]
        while q:
            cur = q.pop(0)
            if cur in d.accept:
                return seen[cur]
            for ch in ALPHA:
                nx = d.trans[cur][ch]
                if nx not in seen:
                    seen[nx] = seen[cur] + ch
                    q.append(nx)
        return None

    def max_length(self):
        """length of the longest accepted string; None when the language is infinite, -1 when empty"""
        n = len(self.trans)
        succ = [set(self.trans[i].values()) for i in range(n)]
        # co-reachable states (can still reach an accepting state)
        pred = [set() for _ in range(n)]
        for i in range(n):
            for j in succ[i]:
                pred[j].add(i)
        live, st = set(self.accept), list(self.accept)
        while st:
            x = st.pop()
            for y in pred[x]:
                if y not in live:
                    live.add(y)
                    st.append(y)
        if self.start not in live:
            return -1
        best, state = {}, {}

        def longest(i):
            if state.get(i) == 1:
                raise OverflowError
            if i in best:
                return best[i]
            state[i] = 1
            m = 0 if i in self.accept else -1
            for j in succ[i]:
                if j in live:
                    m = max(m, 1 + longest(j))
            state[i] = 2
            best[i] = m
            return m
        import sys
        old = sys.getrecursionlimit()
        sys.setrecursionlimit(max(old, 20000))
        try:
            return longest(self.start)
        except OverflowError:
            return None
        finally:
            sys.setrecursionlimit(old)

    def accepts(self, s):
        st = self.start
        for ch in s:
            st = self.trans[st][ch if ch in self.trans[st] else "\x80"]
        return st in self.accept
