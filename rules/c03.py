"""C03 -- all backends of a hash agree and every advertised backend works.

Decided: every advertised backend has a loader that installs the implementation of the same name;
lazily imported backend globals are actually bound before they are called; the OS backend falls back
to the builtin on None and length/prefix-checks crypt()'s answer against the class's checksum size;
the external bcrypt library is never handed more than the 72 bytes it accepts; safe_crypt's contract;
backend state is written only under the backend lock; ident dispatch chains are exhaustive.
Not decided: digest equality between two backends (needs execution)."""
from __future__ import annotations

import ast

from pv.q import text as qtext, find_if, order_of
from pv.model import AnalysisError, walk_no_nested, params, UNKNOWN, peel
from pv.norm import Normalizer, Poly, single_defs

UH = "passlib.utils.handlers"


def site(u, f):
    return f"{u}:{f}"


# ----------------------------------------------------------------------------- C03.a
def _func_binds_global(fn, g):
    """does function fn (declaring `global g`) bind g?  returns list of binding nodes"""
    out = []
    for n in walk_no_nested(fn):
        if isinstance(n, (ast.Import, ast.ImportFrom)):
            for a in n.names:
                if (a.asname or a.name.split(".")[0]) == g:
                    out.append(n)
        elif isinstance(n, ast.Name) and n.id == g and isinstance(n.ctx, ast.Store):
            out.append(n)
    return out


def rule_a(model, rep):
    R = "C03.a-lazy-global-bound"
    n_cand = 0
    for un, unit in model.units.items():
        none_globals = set()
        for st in unit.tree.body:
            if isinstance(st, ast.Assign) and isinstance(st.value, ast.Constant) and st.value.value is None:
                for t in st.targets:
                    if isinstance(t, ast.Name):
                        none_globals.add(t.id)
        if not none_globals:
            continue
        # uses: call / attribute / subscript on the bare global inside functions
        used = {}
        for q, fn in unit.functions():
            local_names = set(params(fn))
            globs = {nm for n in walk_no_nested(fn) if isinstance(n, ast.Global) for nm in n.names}
            for n in walk_no_nested(fn):
                if isinstance(n, ast.Name) and isinstance(n.ctx, ast.Store) and n.id not in globs:
                    local_names.add(n.id)
            for n in walk_no_nested(fn):
                tgt = None
                if isinstance(n, ast.Call) and isinstance(n.func, ast.Name):
                    tgt = n.func.id
                elif isinstance(n, (ast.Attribute, ast.Subscript)) and isinstance(n.value, ast.Name) and isinstance(n.ctx, ast.Load):
                    tgt = n.value.id
                if tgt in none_globals and tgt not in local_names:
                    used.setdefault(tgt, []).append(q)
        for g in sorted(used):
            n_cand += 1
            # binding sites
            binders = []
            for st in unit.tree.body:
                for n in ast.walk(st) if not isinstance(st, (ast.FunctionDef, ast.ClassDef)) else []:
                    if isinstance(n, (ast.Import, ast.ImportFrom)):
                        for a in n.names:
                            if (a.asname or a.name.split(".")[0]) == g:
                                binders.append("<module>")
                    if isinstance(n, ast.Assign) and any(isinstance(t, ast.Name) and t.id == g for t in n.targets) \
                            and not (isinstance(n.value, ast.Constant) and n.value.value is None):
                        binders.append("<module>")
            declared = []
            for q, fn in unit.functions():
                globs = {nm for n in walk_no_nested(fn) if isinstance(n, ast.Global) for nm in n.names}
                if g in globs:
                    b = _func_binds_global(fn, g)
                    declared.append((q, fn, b))
                    if b:
                        binders.append(q)
            s = site(un, g)
            if not binders:
                decl_txt = ", ".join(q for q, _, _ in declared) or "nowhere"
                rep.violation(R, s, f"global {g} = None; used in {sorted(set(used[g]))}; declared global in {decl_txt}; never bound",
                              f"module global `{g}` is called/dereferenced but no code path ever binds it to anything but None",
                              witness=f"first use raises TypeError/AttributeError on None (e.g. selecting the backend that relies on `{g}`)")
            else:
                rep.hold(R, s, f"bound in {sorted(set(binders))}; used in {sorted(set(used[g]))}")
            # loader functions declaring the global must bind it on the success path
            for q, fn, b in declared:
                short = q.split(".")[-1]
                if short.startswith("_load_backend") or (short.startswith("_load_") and short.endswith("_backend")):
                    rep.check(bool(b), R, site(un, q), f"global {g}  # in {q}, no binding statement",
                              f"backend loader declares `global {g}` and must bind it (import/assignment) before reporting success",
                              witness=f"set_backend() succeeds but `{g}` stays None: the first hash raises TypeError")
    rep.minimum(R, 5)
    return n_cand


# ----------------------------------------------------------------------------- C03.b
def _classes_with_backends(model):
    out = []
    for un, unit in model.units.items():
        if not un.startswith("passlib."):
            continue
        for cn in unit.classes:
            mem = model.class_members((un, cn))
            if "backends" in mem and not isinstance(mem["backends"], ast.FunctionDef):
                v = model.fold(unit, mem["backends"])
                if isinstance(v, tuple) and all(isinstance(x, str) for x in v):
                    out.append(((un, cn), v))
    return out


def rule_b(model, rep):
    R = "C03.b-loader-dispatch"
    for cref, backends in _classes_with_backends(model):
        mixmap_owner, mixmap = model.lookup(cref, "_backend_mixin_map")
        if isinstance(mixmap, ast.Dict):
            # subclass-mixin style (bcrypt, argon2)
            keys = {}
            for k, v in zip(mixmap.keys, mixmap.values):
                kk = model.fold(model.unit(cref[0]), k)
                keys[kk] = v
            names = {k for k in keys if k is not None}
            rep.check(names == set(backends), R, site(*cref) + "._backend_mixin_map", f"map keys {sorted(names)} vs backends {sorted(backends)}",
                      "every advertised backend has a mixin and vice versa",
                      witness="set_backend(<name>) raises KeyError or an implemented backend can never be selected")
            rep.check(None in keys, R, site(*cref) + "._backend_mixin_map", "None key", "stub mixin registered under None")
            for name in backends:
                v = keys.get(name)
                if v is None:
                    continue
                r = model.resolve(model.unit(cref[0]), v)
                if not r or r[0] != "class":
                    rep.undecided(R, site(*cref), f"mixin for {name} not resolvable")
                    continue
                mref = (r[1], r[2])
                owner, fn = model.method(mref, "_load_backend_mixin", required=False)
                if fn is None or owner != mref:
                    rep.violation(R, site(*mref), "_load_backend_mixin missing", f"backend mixin for {name!r} lacks its own loader")
                    continue
                # loader: returns False on unavailability; success only via _finalize_backend_mixin(name, dryrun)
                rets = [n for n in walk_no_nested(fn) if isinstance(n, ast.Return)]
                ok = all((isinstance(x.value, ast.Constant) and x.value.value is False) or
                         (isinstance(x.value, ast.Call) and ast.unparse(x.value.func).endswith("._finalize_backend_mixin")
                          and [ast.unparse(a) for a in x.value.args] == ["name", "dryrun"]) for x in rets) and rets
                rep.check(ok, R, site(mref[0], mref[1] + "._load_backend_mixin"), "; ".join(ast.unparse(x) for x in rets),
                          "loader returns False or the result of _finalize_backend_mixin(name, dryrun)",
                          witness="backend reported available without the self-test / workaround detection")
                own_calc = "_calc_checksum" in model.class_members(mref)
                rep.check(own_calc, R, site(*mref), "_calc_checksum", f"backend mixin {name!r} defines its own _calc_checksum")
            continue
        for name in backends:
            owner, ld = model.method(cref, "_load_backend_" + name, required=False)
            s = site(cref[0], f"{cref[1]}._load_backend_{name}")
            if ld is None:
                rep.violation(R, s, f"backends = {backends!r}", f"advertised backend {name!r} has no loader _load_backend_{name}",
                              witness=f"set_backend({name!r}) fails although the backend is advertised")
                continue
            calls = [n for n in walk_no_nested(ld) if isinstance(n, ast.Call)
                     and ast.unparse(n.func) in ("cls._set_calc_checksum_backend",)]
            if len(calls) != 1:
                rep.undecided(R, s, f"expected one _set_calc_checksum_backend call, found {len(calls)}")
                continue
            arg = ast.unparse(calls[0].args[0]) if calls[0].args else ""
            want = f"cls._calc_checksum_{name}"
            rep.check(arg == want, R, s, ast.unparse(calls[0]), f"loader for {name!r} must install {want}",
                      witness=f"selecting backend {name!r} silently runs another backend's code (or a missing method)")
            o2, impl = model.method(cref, "_calc_checksum_" + name, required=False)
            rep.check(impl is not None, R, s, want, f"{want} exists")
            # True only after the install call
            for r_ in [n for n in walk_no_nested(ld) if isinstance(n, ast.Return)]:
                if isinstance(r_.value, ast.Constant) and r_.value.value is True:
                    blk_ok = _stmt_precedes(model.unit(owner[0]), ld, calls[0], r_)
                    rep.check(blk_ok, R, s, "return True", "`return True` only after the backend function is installed",
                              witness="backend reported loaded but _calc_checksum_backend still the stub")
    rep.minimum(R, 20)


def _stmt_of(unit, node, func):
    n = node
    while unit.parent(n) is not None and not isinstance(n, ast.stmt):
        n = unit.parent(n)
    return n


def _stmt_precedes(unit, func, a, b):
    """does statement containing a come before (same block or an enclosing block of) b?"""
    sa = _stmt_of(unit, a, func)
    node = _stmt_of(unit, b, func)
    while node is not None and node is not func:
        par = unit.parent(node)
        for fld in ("body", "orelse", "finalbody"):
            blk = getattr(par, fld, None)
            if isinstance(blk, list) and node in blk:
                if sa in blk[: blk.index(node)]:
                    return True
        node = par
    return False


# ----------------------------------------------------------------------------- C03.c / C03.d
def _os_crypt_sites(model):
    out = []
    for un, unit in model.units.items():
        for cn, c in unit.classes.items():
            for st in c.body:
                if isinstance(st, ast.FunctionDef) and st.name == "_calc_checksum_os_crypt":
                    out.append(((un, cn), st))
    return out


def _expected_sizes(model, cref):
    cs = model.class_const(cref, "checksum_size")
    return cs


def rule_cd(model, rep):
    RC, RD = "C03.c-os-fallback", "C03.d-os-length"
    for cref, fn in _os_crypt_sites(model):
        s = site(cref[0], f"{cref[1]}._calc_checksum_os_crypt")
        sd = single_defs(fn)
        calls = [n for n in walk_no_nested(fn) if isinstance(n, ast.Call) and ast.unparse(n.func) == "safe_crypt"]
        if len(calls) != 1:
            rep.undecided(RC, s, f"expected one safe_crypt call, found {len(calls)}")
            continue
        # the result variable
        var = None
        for n in walk_no_nested(fn):
            if isinstance(n, ast.Assign) and n.value is calls[0] and isinstance(n.targets[0], ast.Name):
                var = n.targets[0].id
        if var is None:
            rep.undecided(RC, s, "safe_crypt result not bound to a name")
            continue
        first_arg = ast.unparse(calls[0].args[0]) if calls[0].args else ""
        rep.check(first_arg == params(fn)[1], RC, s, ast.unparse(calls[0]), "crypt() receives the caller's secret unchanged",
                  witness="OS backend hashes a different password than the builtin backend")
        # `if var is None: return self._calc_checksum_builtin(secret)`
        fb = None
        for n in walk_no_nested(fn):
            if isinstance(n, ast.If) and ast.unparse(n.test) in (f"{var} is None", f"not {var}"):
                rets = [x for x in n.body if isinstance(x, ast.Return)]
                if rets:
                    fb = rets[0]
        if fb is None:
            rep.violation(RC, s, f"no `if {var} is None: return <builtin>` branch",
                          "crypt() returning None (non-UTF-8 password) must fall back to the builtin implementation",
                          witness="hashing a non-UTF-8 bytes password through the os_crypt backend raises / differs from builtin")
        else:
            want = f"self._calc_checksum_builtin({params(fn)[1]})"
            rep.check(ast.unparse(fb.value) == want, RC, s, ast.unparse(fb), f"fallback must be `return {want}`",
                      witness="non-UTF-8 password: the os_crypt backend returns something else than the builtin digest")
        # a validating `if ...: raise CryptBackendError`
        guards = [n for n in walk_no_nested(fn) if isinstance(n, ast.If) and any(
            isinstance(x, ast.Raise) and qtext(x).loose("CryptBackendError") for x in n.body)]
        if len(guards) != 1:
            rep.violation(RC, s, f"{len(guards)} validating guards", "crypt()'s answer must be prefix/length-checked before use",
                          witness="a crypt() that answers with a different scheme's hash is accepted as this scheme's digest")
            continue
        rep.hold(RC, s, "validates answer, raises CryptBackendError")
        g = guards[0]
        # D: length / slice agree with checksum_size (symbolic when the class leaves it to subclasses)
        csv = model.class_const(cref, "checksum_size")
        rets = [n for n in fn.body if isinstance(n, ast.Return)]
        final = rets[-1] if rets else None
        if final is None or not isinstance(final.value, ast.Subscript) or not isinstance(final.value.slice, ast.Slice):
            rep.undecided(RD, s, "final return is not a slice of the crypt() answer")
            continue

        def const(e, _cs=csv):
            if ast.unparse(e) in ("self.checksum_size", "cls.checksum_size"):
                return _cs if isinstance(_cs, int) else None
            if isinstance(e, ast.Name) and e.id in sd:
                return None
            v = model.fold(model.unit(cref[0]), e, cls=cref)
            return v if isinstance(v, int) else None
        norm = Normalizer(env=sd, const=const)
        CS = Poly.const(csv) if isinstance(csv, int) else Poly.atom("self.checksum_size")
        cs = csv if isinstance(csv, int) else "checksum_size"
        sl = final.value.slice
        lo = norm.poly(sl.lower) if sl.lower else None
        hi = norm.poly(sl.upper) if sl.upper else None
        total = None
        gtxt = ast.unparse(g.test)
        for n in ast.walk(g.test):
            if isinstance(n, ast.Compare) and isinstance(n.left, ast.Call) and ast.unparse(n.left) == f"len({var})" \
                    and isinstance(n.ops[0], ast.NotEq):
                total = norm.poly(n.comparators[0])
        sep_check = None
        for n in ast.walk(g.test):
            if isinstance(n, ast.Compare) and isinstance(n.left, ast.Subscript) and ast.unparse(n.left.value) == var \
                    and isinstance(n.ops[0], ast.NotEq) and not isinstance(n.left.slice, ast.Slice):
                sep_check = norm.poly(n.left.slice)
        wit_cut = "the os_crypt digest is cut at the wrong offset: it never equals the builtin digest / the stored hash"
        if hi is None and lo is not None and (Poly.const(0) - lo) == CS:
            rep.hold(RD, s, f"returned tail {ast.unparse(final.value)} has checksum_size ({cs}) characters")
            if total is not None:
                rest = total - CS
                k = rest.t.get((), 0)
                nonconst = {m: c for m, c in rest.t.items() if m != ()}
                if nonconst:
                    rep.check(rest.t.get((), 0) in (0, 1), RD, s, gtxt,
                              f"accepted length = len(config) + checksum_size + {int(k)} (0 or 1 separator)",
                              witness="every genuine crypt() answer is rejected with CryptBackendError, or a wrong-size answer is accepted")
                else:
                    rep.check(int(k) >= 0, RD, s, gtxt, f"accepted total length = checksum_size + {int(k)}",
                              witness="accepted crypt() answers are shorter than the digest that is sliced from them")
            elif sep_check is not None:
                rep.check(sep_check == Poly.const(-1) - CS, RD, s, gtxt, "separator checked at index -(checksum_size+1)", witness=wit_cut)
            else:
                rep.undecided(RD, s, "no length / separator check recognised in guard")
        elif hi is None and lo is not None and lo.value() is not None and lo.value() >= 0:
            tot = total.value() if total is not None else None
            if isinstance(tot, int) and isinstance(csv, int):
                rep.check(tot - lo.value() == csv, RD, s, f"{gtxt}; {ast.unparse(final)}",
                          f"total {tot} - offset {lo.value()} == checksum_size {csv}", witness=wit_cut)
            else:
                rep.undecided(RD, s, "fixed total length not recognised")
        elif hi is None and lo is not None:
            rep.violation(RD, s, ast.unparse(final), f"returned tail `{ast.unparse(final.value)}` is not the last checksum_size ({cs}) characters",
                          witness=wit_cut)
        else:
            rep.undecided(RD, s, f"slice shape {ast.unparse(final)} not recognised")
    rep.minimum(RC, 10)
    rep.minimum(RD, 5)
    # bcrypt mixins (os_crypt and bcrypt): len(hash) != len(config) + 31, return hash[-31:]
    for mix in ("_BcryptBackend", "_OsCryptBackend"):
        cref = ("passlib.handlers.bcrypt", mix)
        owner, fn = model.method(cref, "_calc_checksum")
        s = site(cref[0], mix + "._calc_checksum")
        cs = model.class_const(cref, "checksum_size")
        txt = qtext(fn)
        lens = [n for n in ast.walk(fn) if isinstance(n, ast.Compare) and ast.unparse(n.left) == "len(hash)"]
        sl = [n for n in ast.walk(fn) if isinstance(n, ast.Subscript) and ast.unparse(n.value) == "hash"
              and isinstance(n.slice, ast.Slice)]
        ok = len(lens) == 1 and ast.unparse(lens[0].comparators[0]) == f"len(config) + {cs}" and isinstance(lens[0].ops[0], ast.NotEq)
        rep.check(ok, RD, s, ast.unparse(lens[0]) if lens else "<none>", f"answer length must be len(config) + {cs}",
                  witness="bcrypt answers of the right size are rejected / wrong size accepted")
        ok = len(sl) == 1 and ast.unparse(sl[0].slice) == f"-{cs}:"
        rep.check(ok, RD, s, ast.unparse(sl[0]) if sl else "<none>", f"digest = last {cs} characters",
                  witness="bcrypt digest cut at the wrong offset")
        ok = txt.loose("hash.startswith(config)")
        rep.check(ok, RD, s, "hash.startswith(config)", "answer must echo the config string")


def _is_cs_alias(fn):
    for n in ast.walk(fn):
        if isinstance(n, ast.Assign) and ast.unparse(n) == "cs = self.checksum_size":
            return True
    return False


# ----------------------------------------------------------------------------- C03.e
def rule_e(model, rep):
    """bcrypt.hashpw(secret, ..): len(secret) <= 72 on every path (bcrypt >= 5 raises ValueError otherwise)."""
    R = "C03.e-hashpw-72"
    for un in ("passlib.handlers.bcrypt", "libpass.hashers.bcrypt", "passlib.handlers.django"):
        unit = model.units.get(un)
        if unit is None:
            continue
        for q, fn in unit.functions():
            for n in walk_no_nested(fn):
                if not (isinstance(n, ast.Call) and isinstance(n.func, ast.Attribute) and n.func.attr in ("hashpw", "checkpw")):
                    continue
                recv = ast.unparse(n.func.value)
                if recv not in ("_bcrypt", "bcrypt"):
                    continue
                if not n.args:
                    continue
                a0 = n.args[0]
                s = site(un, q)
                if un.startswith("libpass."):
                    # libpass documents the library's own 72-byte limit as the API limit (property C20 says so): info only
                    rep.hold(R, s, f"{ast.unparse(n)[:60]} (libpass passes the library limit through by design)")
                    continue
                ok, why = _bounded_72(unit, fn, n, a0)
                rep.check(ok, R, s, f"{recv}.{n.func.attr}({ast.unparse(a0)}, ...)",
                          "the secret handed to the bcrypt library must be bounded to 72 bytes on every path "
                          "(bcrypt >= 5.0 raises ValueError for longer input; the backend self-test passes 255 bytes) -- " + why,
                          witness="passlib.hash.bcrypt.hash(<any password>) raises ValueError from the backend self-test with bcrypt>=5: "
                                  "the 'bcrypt' backend is reported available but cannot hash")
    rep.minimum(R, 1)


def rule_e_oscrypt(model, rep):
    """bcrypt consumes 72 bytes; crypt(3) implementations may refuse long passphrases outright (libxcrypt: 512 bytes and more),
    so the OS backend must not hand the whole secret over"""
    R = "C03.e-hashpw-72"
    B = "passlib.handlers.bcrypt"
    fn = model.func(B, "_OsCryptBackend._calc_checksum")
    calls = [c for c in walk_no_nested(fn) if isinstance(c, ast.Call) and ast.unparse(c.func) == "safe_crypt" and c.args]
    if len(calls) != 1:
        rep.undecided(R, site(B, "_OsCryptBackend._calc_checksum"), f"{len(calls)} safe_crypt calls")
        return
    a = ast.unparse(calls[0].args[0])
    rep.check(a in ("utf8_truncate(secret, 72)", "secret[:72]"), R, site(B, "_OsCryptBackend._calc_checksum") + " crypt() input", f"safe_crypt({a}, config)",
              "the OS backend hands crypt() at most the 72 (+ up to 3, to end on a character boundary) bytes bcrypt uses",
              witness="bcrypt.set_backend('os_crypt'); bcrypt.hash('a' * 512) raises InternalBackendError (libxcrypt refuses passphrases of 512+ bytes) while the bcrypt and builtin backends hash it; verify('a'*512, hash('a'*72)) raises too")


def _bounded_72(unit, fn, call, arg):
    """arg is `X[:k]` with const k<=72, or a name whose last assignment before the call (same block chain) is such a slice."""
    def is_slice72(e):
        if isinstance(e, ast.Subscript) and isinstance(e.slice, ast.Slice) and e.slice.lower is None and e.slice.step is None \
                and isinstance(e.slice.upper, ast.Constant) and isinstance(e.slice.upper.value, int):
            return 0 <= e.slice.upper.value <= 72
        return False
    if is_slice72(arg):
        return True, "argument is sliced"
    if isinstance(arg, ast.Name):
        # walk statements of the function in order, track whether name is bounded (straight-line approximation;
        # assignments under a condition make it unbounded unless both branches bound it)
        state = _bounded_state(fn.body, arg.id, call, False)
        if state[1]:
            return state[0], "no unconditional `[:72]` slice reaches the call" if not state[0] else "bounded"
    return False, "argument is not bounded by a constant slice"


def _bounded_state(stmts, name, call, bounded):
    """returns (bounded, reached_call)"""
    for st in stmts:
        if any(n is call for n in ast.walk(st)) and not isinstance(st, (ast.If, ast.Try, ast.With, ast.For, ast.While)):
            # evaluate assignment effect first only if call is on RHS (call happens before store)
            return bounded, True
        if isinstance(st, ast.Assign) and any(_targets_name(t, name) for t in st.targets):
            v = st.value
            if isinstance(st.targets[0], ast.Tuple):
                bounded = False  # tuple unpack from helper: unknown length
            else:
                bounded = (isinstance(v, ast.Subscript) and isinstance(v.slice, ast.Slice) and v.slice.lower is None
                           and isinstance(v.slice.upper, ast.Constant) and isinstance(v.slice.upper.value, int)
                           and v.slice.upper.value <= 72 and isinstance(v.value, ast.Name) and v.value.id == name) or \
                          (isinstance(v, ast.Subscript) and isinstance(v.slice, ast.Slice) and v.slice.lower is None
                           and isinstance(v.slice.upper, ast.Constant) and isinstance(v.slice.upper.value, int)
                           and v.slice.upper.value <= 72)
        elif isinstance(st, ast.If):
            b1, r1 = _bounded_state(st.body, name, call, bounded)
            if r1:
                return b1, True
            b2, r2 = _bounded_state(st.orelse, name, call, bounded)
            if r2:
                return b2, True
            bounded = b1 and b2
        elif isinstance(st, (ast.Try,)):
            b1, r1 = _bounded_state(st.body, name, call, bounded)
            if r1:
                return b1, True
            bounded = b1 and bounded
        elif isinstance(st, (ast.With, ast.For, ast.While)):
            b1, r1 = _bounded_state(st.body, name, call, bounded)
            if r1:
                return b1, True
            bounded = b1 and bounded
    return bounded, False


def _targets_name(t, name):
    return any(isinstance(n, ast.Name) and n.id == name for n in ast.walk(t))


# ----------------------------------------------------------------------------- C03.f
def rule_f(model, rep):
    R = "C03.f-safe-crypt"
    u = model.unit("passlib.utils")
    # the real definition lives in the `else:` branch of try/import legacycrypt
    defs = [n for n in ast.walk(u.tree) if isinstance(n, ast.FunctionDef) and n.name == "safe_crypt"]
    real = [d for d in defs if any(isinstance(n, ast.Call) and ast.unparse(n.func) == "_crypt" for n in ast.walk(d))]
    if len(real) != 1:
        raise AnalysisError("safe_crypt definition calling _crypt not found")
    fn = real[0]
    s = site("passlib.utils", "safe_crypt")
    sec = params(fn)[0]
    # 1. non-UTF-8 bytes -> return None
    ok = False
    for n in ast.walk(fn):
        if isinstance(n, ast.Try):
            body_txt = " ".join(ast.unparse(x) for x in n.body)
            if f"{sec}.decode('utf-8')" in body_txt:
                for h in n.handlers:
                    if h.type is not None and "UnicodeDecodeError" in qtext(h.type):
                        ok = any(isinstance(x, ast.Return) and (x.value is None or (isinstance(x.value, ast.Constant) and x.value.value is None))
                                 for x in h.body)
    rep.check(ok, R, s, "except UnicodeDecodeError: return None", "non-UTF-8 bytes passwords make safe_crypt return None (so callers fall back)",
              witness="non-UTF-8 password raises UnicodeDecodeError out of hash()/verify() with the os_crypt backend")
    # 2. NUL -> ValueError
    ok = False
    for n in ast.walk(fn):
        if isinstance(n, ast.If) and ast.unparse(n.test) in (f"_NULL in {sec}", f"'\\x00' in {sec}"):
            ok = any(isinstance(x, ast.Raise) and qtext(x).loose("ValueError") for x in n.body)
    rep.check(ok, R, s, f"if _NULL in {sec}: raise ValueError", "NUL in the password is refused before crypt()",
              witness="crypt() silently truncates the password at the first NUL")
    # 3. _crypt call under the lock
    call = [n for n in ast.walk(fn) if isinstance(n, ast.Call) and ast.unparse(n.func) == "_crypt"][0]
    w = u.enclosing(call, ast.With)
    ok = w is not None and any(ast.unparse(i.context_expr) == "_safe_crypt_lock" for i in w.items)
    rep.check(ok, R, s, "with _safe_crypt_lock: _crypt(...)", "crypt(3) (not re-entrant) is only called under _safe_crypt_lock",
              witness="two threads hashing through os_crypt corrupt each other's static result buffer")
    lk = u.assigns.get("_safe_crypt_lock")
    ok = bool(lk) and isinstance(lk[0], ast.Call) and model.dotted(u, lk[0].func) in ("threading.Lock", "threading.RLock")
    rep.check(ok, R, site("passlib.utils", "_safe_crypt_lock"), ast.unparse(lk[0]) if lk else "<none>", "_safe_crypt_lock is a threading lock")
    # 4. _crypt receives (secret, hash) in that order
    rep.check([ast.unparse(a) for a in call.args] == params(fn)[:2], R, s, ast.unparse(call), "_crypt(secret, hash) argument order")
    # 5. invalid prefixes / empty -> None
    ok = any(isinstance(n, ast.If) and qtext(n.test).loose("not result") and qtext(n.test).loose("_invalid_prefixes")
             for n in ast.walk(fn))
    rep.check(ok, R, s, "if not result or result[0] in _invalid_prefixes: return None", "error markers from crypt() are mapped to None")
    # test_crypt compares the whole answer
    tc = model.func("passlib.utils", "test_crypt")
    rets = [ast.unparse(n.value) for n in ast.walk(tc) if isinstance(n, ast.Return)]
    rep.check(rets == ["safe_crypt(secret, hash) == hash"], R, site("passlib.utils", "test_crypt"), "; ".join(rets),
              "backend detection compares crypt()'s whole answer with the reference hash",
              witness="os_crypt backend reported available on a host whose crypt() does not implement the scheme")


# ----------------------------------------------------------------------------- C03.g
BACKEND_STATE = {"_BackendMixin__backend", "__backend", "_pending_backend", "_pending_dry_run", "_calc_checksum_backend"}


def rule_g(model, rep):
    """stores to backend state only inside the `with _backend_lock:` region of set_backend or in functions
    called only from there (_set_backend, loaders, _set_calc_checksum_backend, update_mixin_classes)."""
    R = "C03.g-backend-state-owner"
    u = model.unit(UH)
    allowed_funcs = {"BackendMixin.set_backend", "HasManyBackends._set_calc_checksum_backend"}
    n = 0
    for un, unit in model.units.items():
        if not un.startswith("passlib."):
            continue
        for q, fn in unit.functions():
            for node in walk_no_nested(fn):
                tgts = []
                if isinstance(node, ast.Assign):
                    tgts = node.targets
                elif isinstance(node, (ast.AugAssign, ast.AnnAssign)):
                    tgts = [node.target]
                for t in tgts:
                    for tt in (t.elts if isinstance(t, ast.Tuple) else [t]):
                        if isinstance(tt, ast.Attribute) and tt.attr in BACKEND_STATE and isinstance(tt.value, ast.Name) \
                                and tt.value.id in ("cls", "self", "mixin_cls"):
                            n += 1
                            s = site(un, q)
                            if un == UH and q in allowed_funcs:
                                if q == "BackendMixin.set_backend":
                                    w = unit.enclosing(node, ast.With)
                                    ok = w is not None and any(ast.unparse(i.context_expr) == "_backend_lock" for i in w.items)
                                    rep.check(ok, R, s, ast.unparse(node), "backend state written inside `with _backend_lock:`",
                                              witness="two threads selecting backends interleave: __backend names one backend while _calc_checksum_backend is another's")
                                else:
                                    rep.hold(R, s, ast.unparse(node) + " (called only from loaders under the lock)")
                            elif q.endswith("_stub_checksum") or tt.attr == "rounds":
                                pass
                            else:
                                rep.violation(R, s, ast.unparse(node), "backend state written outside BackendMixin.set_backend's locked region",
                                              witness="backend selection raced / changed behind set_backend's back")
    # _set_calc_checksum_backend is called only from loader functions
    for un, unit in model.units.items():
        for q, fn in unit.functions():
            for node in walk_no_nested(fn):
                if isinstance(node, ast.Call) and isinstance(node.func, ast.Attribute) and node.func.attr == "_set_calc_checksum_backend":
                    short = q.split(".")[-1]
                    ok = short.startswith("_load_backend_") or short == "__load_legacy_backend"
                    rep.check(ok, R, site(un, q), ast.unparse(node)[:80], "_set_calc_checksum_backend is only called from backend loaders",
                              witness="backend function replaced outside set_backend()")
    # loaders are only invoked from _set_backend
    sb = model.func(UH, "BackendMixin._set_backend")
    rep.check("loader(**kwds)" in qtext(sb), R, site(UH, "BackendMixin._set_backend"), "ok = loader(**kwds)", "loader invoked by _set_backend")
    # set_backend: the with-block contains the _set_backend call and the __backend store guarded by `not dryrun`
    fn = model.func(UH, "BackendMixin.set_backend")
    withs = [n for n in ast.walk(fn) if isinstance(n, ast.With) and any(ast.unparse(i.context_expr) == "_backend_lock" for i in n.items)]
    if len(withs) != 1:
        rep.undecided(R, site(UH, "BackendMixin.set_backend"), "with _backend_lock block not found")
    else:
        w = withs[0]
        txt = qtext(w)
        rep.check("cls._set_backend(name, dryrun)" in txt, R, site(UH, "BackendMixin.set_backend"), "cls._set_backend(name, dryrun)",
                  "loader runs inside the lock")
        ok = any(isinstance(n, ast.If) and ast.unparse(n.test) == "not dryrun" and "cls.__backend = name" in qtext(n)
                 for n in ast.walk(w))
        rep.check(ok, R, site(UH, "BackendMixin.set_backend"), "if not dryrun: cls.__backend = name",
                  "a dry run (has_backend) never switches the active backend",
                  witness="has_backend('builtin') silently switches every later hash to that backend")
        # restore pending state in finally
        ok = any(isinstance(n, ast.Try) and n.finalbody and "cls._pending_backend, cls._pending_dry_run = orig" in qtext(n.finalbody[0])
                 for n in ast.walk(w))
        rep.check(ok, R, site(UH, "BackendMixin.set_backend"), "finally: cls._pending_backend, cls._pending_dry_run = orig",
                  "pending-state is restored on every exit")
    lk = u.assigns.get("_backend_lock")
    ok = bool(lk) and isinstance(lk[0], ast.Call) and model.dotted(u, lk[0].func) == "threading.RLock"
    rep.check(ok, R, site(UH, "_backend_lock"), ast.unparse(lk[0]) if lk else "<none>",
              "_backend_lock is re-entrant (set_backend recurses through 'any'/'default')",
              witness="set_backend('default') deadlocks on its own recursive call")
    # dry-run guard in _set_calc_checksum_backend
    f2 = model.func(UH, "HasManyBackends._set_calc_checksum_backend")
    ok = any(isinstance(n, ast.If) and ast.unparse(n.test) == "not cls._pending_dry_run" and
             "cls._calc_checksum_backend = func" in qtext(n) for n in ast.walk(f2))
    rep.check(ok, R, site(UH, "HasManyBackends._set_calc_checksum_backend"), "if not cls._pending_dry_run: cls._calc_checksum_backend = func",
              "dry run installs nothing", witness="has_backend() switches the implementation")
    # update_mixin_classes honours dryrun
    um = model.func("passlib.utils", "update_mixin_classes")
    txt = qtext(um)
    ok = "if dryrun" in txt or "not dryrun" in txt
    rep.check(ok, R, site("passlib.utils", "update_mixin_classes"), "dryrun guard", "mixin swap honours dryrun")
    rep.minimum(R, 8)
    # a function that receives `dryrun` hands it on to every callee that takes one
    RF = "C03.g-dryrun-forwarded"
    takers = {}
    for un, unit in model.units.items():
        if not un.startswith("passlib."):
            continue
        for q, fn in unit.functions():
            if "dryrun" in params(fn):
                takers.setdefault(q.split(".")[-1], []).append((un, q, fn))
    nf = 0
    for name, lst in takers.items():
        for un, q, fn in lst:
            for node in walk_no_nested(fn):
                if not isinstance(node, ast.Call):
                    continue
                callee = node.func.attr if isinstance(node.func, ast.Attribute) else (node.func.id if isinstance(node.func, ast.Name) else None)
                if callee not in takers or callee == "loader":
                    continue
                cun, cq, cfn = takers[callee][0]
                cparams = params(cfn)
                if "." in cq and isinstance(node.func, ast.Attribute) and not any(ast.unparse(d) == "staticmethod" for d in cfn.decorator_list):
                    cparams = cparams[1:]  # bound receiver
                idx = cparams.index("dryrun")
                kw = {k.arg: k.value for k in node.keywords}
                passed = kw.get("dryrun")
                if passed is None and len(node.args) > idx and not any(a.arg == "dryrun" for a in cfn.args.kwonlyargs):
                    passed = node.args[idx]
                nf += 1
                ok = passed is not None and ast.unparse(passed) in ("dryrun", "dryrun=dryrun")
                rep.check(ok, RF, site(un, q), f"{ast.unparse(node)[:90]}  # dryrun={'<default>' if passed is None else ast.unparse(passed)}",
                          f"`{q}` received dryrun and calls `{callee}`, which takes one: the flag is handed on unchanged",
                          witness="has_backend(X) (a dry run) swaps the implementation / mixin classes while get_backend() still reports the old backend")
    if nf < 3:
        rep.undecided(RF, "<instance-count>", f"only {nf} dryrun-forwarding call sites found, expected at least 3")


# ----------------------------------------------------------------------------- C03.m
def rule_m(model, rep):
    """a per-backend 'already done' flag is written on the object it is tested on"""
    R = "C03.m-once-flag-receiver"
    n = 0
    for un, unit in model.units.items():
        if not un.startswith("passlib."):
            continue
        for q, fn in unit.functions():
            guards = {}
            for st in walk_no_nested(fn):
                if isinstance(st, ast.If) and isinstance(st.test, ast.Attribute) and st.body and isinstance(st.body[-1], ast.Return):
                    guards[st.test.attr] = ast.unparse(st.test.value)
            if not guards:
                continue
            for st in walk_no_nested(fn):
                if isinstance(st, ast.Assign) and len(st.targets) == 1 and isinstance(st.targets[0], ast.Attribute) and st.targets[0].attr in guards \
                        and isinstance(st.value, ast.Constant) and st.value.value is True:
                    n += 1
                    recv = ast.unparse(st.targets[0].value)
                    rep.check(recv == guards[st.targets[0].attr], R, site(un, q), f"tests `{guards[st.targets[0].attr]}.{st.targets[0].attr}` but sets `{ast.unparse(st.targets[0])} = True`",
                              "the done-flag is set on the same object it is tested on (each backend mixin keeps its own)",
                              witness="the flag lands on a shared base class: the first backend loaded marks every backend as initialised, later ones skip their feature detection "
                                      "(e.g. bcrypt os_crypt loaded after 'bcrypt' never learns that $2$ is unsupported -> InternalBackendError / 'Invalid salt')")
    if n < 1:
        rep.undecided(R, "<instance-count>", "no once-flag found (expected bcrypt._finalize_backend_mixin)")


# ----------------------------------------------------------------------------- C03.l
def rule_l(model, rep):
    """A no-backend stub loads a backend and then re-dispatches the *same* call.  If it re-dispatches through the
    instance (self.m(...)) the call re-enters every wrapping override of m in a subclass, which then transforms its
    argument a second time."""
    R = "C03.l-stub-redispatch"
    n = 0
    for un, unit in model.units.items():
        if not un.startswith("passlib."):
            continue
        for cn, cnode in unit.classes.items():
            stubs = []
            for st in cnode.body:
                if isinstance(st, ast.FunctionDef):
                    body = [x for x in st.body if not (isinstance(x, ast.Expr) and isinstance(x.value, ast.Constant))]
                    if body and isinstance(body[0], ast.Expr) and ast.unparse(body[0].value) in ("self._stub_requires_backend()", "cls._stub_requires_backend()"):
                        stubs.append((st, body))
            if not stubs or un == UH:
                continue
            stubbed = {st.name for st, _ in stubs}
            # handler classes that list this mixin as a base
            hosts = [(u2, c2) for u2, unit2 in model.units.items() for c2 in unit2.classes if (un, cn) in model.bases((u2, c2))]
            for st, body in stubs:
                s = site(un, f"{cn}.{st.name}")
                ret = body[-1] if isinstance(body[-1], ast.Return) and isinstance(body[-1].value, ast.Call) else None
                if ret is None or len(body) != 2:
                    rep.undecided(R, s, "stub is not `require backend; return <re-dispatch>`")
                    continue
                call = ret.value
                f = call.func
                args = [ast.unparse(a) for a in call.args]
                own = [p_ for p_ in params(st) if p_ not in ("self", "cls")]
                n += 1
                if not (isinstance(f, ast.Attribute) and f.attr == st.name and args == own):
                    rep.violation(R, s, ast.unparse(ret), "the stub must repeat the call it intercepted (same method, same arguments)",
                                  witness="the first call after start-up computes something else than every later call")
                    continue
                recv = ast.unparse(f.value)
                if st.name == "_calc_checksum" and {"hash", "verify", "genhash"} <= stubbed:
                    rep.hold(R, s, f"{recv}: digest stub is shadowed by the hash/verify/genhash stubs of the same mixin (never the first call)")
                    continue
                if recv in ("self", "cls"):
                    wrappers = []
                    for hu, hc in hosts:
                        for sub in [(hu, hc)] + model.subclasses((hu, hc)):
                            su = model.units.get(sub[0])
                            if su is None or sub[1] not in su.classes:
                                continue
                            for m in su.classes[sub[1]].body:
                                if isinstance(m, ast.FunctionDef) and m.name == st.name:
                                    mown = [p_ for p_ in params(m) if p_ not in ("self", "cls")]
                                    for c in walk_no_nested(m):
                                        if isinstance(c, ast.Call) and ast.unparse(c.func) == f"super().{st.name}" and [ast.unparse(a) for a in c.args] != mown:
                                            wrappers.append((sub, ast.unparse(c)))
                    if wrappers:
                        sub, txt = wrappers[0]
                        rep.violation(R, s, f"{ast.unparse(ret)}  # re-enters {sub[1]}.{st.name}, which wraps it as `{txt}`",
                                      f"the stub re-dispatches through the instance, so the wrapping override in {sub[1]} runs a second time on its own output",
                                      witness=f"in a fresh process the first {sub[1]}.hash(pw) is computed from the transformed password transformed again: it does not verify, "
                                              f"and differs from every later hash of the same password and salt")
                    else:
                        rep.hold(R, s, f"{ast.unparse(ret)}: no subclass wraps {st.name}")
                elif recv.startswith("super("):
                    inner = f.value.args
                    ok = len(inner) == 2 and any(ast.unparse(inner[0]) == hc for _, hc in hosts) and ast.unparse(inner[1]) in ("self", "cls")
                    rep.check(ok, R, s, ast.unparse(ret), "the stub continues the lookup after the handler class (the mixin itself is swapped out of the bases once a backend is loaded)",
                              witness="super() anchored at the stub mixin raises TypeError after set_backend() removed the mixin from the MRO")
                else:
                    rep.undecided(R, s, f"re-dispatch receiver `{recv}` not recognised")
    if n < 4:
        rep.undecided(R, "<instance-count>", f"only {n} backend stubs found, expected at least 4")


# ----------------------------------------------------------------------------- C03.h / C03.i
def rule_hi(model, rep):
    RH, RI = "C03.h-bcrypt-mixins", "C03.i-exhaustive-dispatch"
    B = "passlib.handlers.bcrypt"
    for mix in ("_BcryptBackend", "_OsCryptBackend", "_BuiltinBackend"):
        owner, fn = model.method((B, mix), "_calc_checksum")
        first = next((st for st in fn.body if not (isinstance(st, ast.Expr) and isinstance(st.value, ast.Constant))), None)
        ok = first is not None and ast.unparse(first) == "secret, ident = self._prepare_digest_args(secret)"
        rep.check(ok, RH, site(B, mix + "._calc_checksum"), ast.unparse(first)[:100] if first else "<empty>",
                  "every bcrypt backend starts with the common argument preparation (encode, size, truncate policy, NUL, ident fallback)",
                  witness="one backend skips the NUL / size / wraparound handling the others apply")
    # _NoBackend stub
    owner, fn = model.method((B, "_NoBackend"), "_calc_checksum")
    txt = [ast.unparse(st) for st in fn.body if not (isinstance(st, ast.Expr) and isinstance(st.value, ast.Constant))]
    rep.check(len(txt) == 2 and txt[0] == "self._stub_requires_backend()" and txt[1].startswith("return ") and txt[1].endswith("._calc_checksum(secret)"), RH, site(B, "_NoBackend._calc_checksum"),
              "; ".join(txt), "stub loads a backend, then re-dispatches the digest call (the receiver is decided by C03.l)")
    # builtin call arguments
    owner, fn = model.method((B, "_BuiltinBackend"), "_calc_checksum")
    calls = [n for n in ast.walk(fn) if isinstance(n, ast.Call) and ast.unparse(n.func) == "_builtin_bcrypt"]
    ok = len(calls) == 1 and [ast.unparse(a) for a in calls[0].args] == ["secret", "ident[1:-1]", "self.salt.encode('ascii')", "self.rounds"]
    rep.check(ok, RH, site(B, "_BuiltinBackend._calc_checksum"), ast.unparse(calls[0]) if calls else "<none>",
              "raw_bcrypt(secret, ident-without-dollars, salt bytes, rounds)",
              witness="builtin backend computes with different ident/salt/cost than the other backends")
    # ident dispatch chain in _norm_digest_args
    fn = model.func(B, "_BcryptCommon._norm_digest_args")
    unit = model.unit(B)
    idents = model.class_const((B, "_BcryptCommon"), "ident_values")
    chain = None
    for st in fn.body:
        if isinstance(st, ast.If) and isinstance(st.test, ast.Compare) and ast.unparse(st.test.left) == "ident":
            chain = st
    if chain is None or idents is UNKNOWN:
        rep.undecided(RI, site(B, "_BcryptCommon._norm_digest_args"), "ident dispatch chain not found")
    else:
        seen = []
        node = chain
        final_else = None
        while True:
            v = model.fold(unit, node.test.comparators[0])
            seen.append(v)
            if len(node.orelse) == 1 and isinstance(node.orelse[0], ast.If) and isinstance(node.orelse[0].test, ast.Compare) \
                    and ast.unparse(node.orelse[0].test.left) == "ident":
                node = node.orelse[0]
            else:
                final_else = node.orelse
                break
        rep.check(sorted(seen) == sorted(idents) and len(set(seen)) == len(seen), RI, site(B, "_BcryptCommon._norm_digest_args"),
                  f"chain handles {seen}", f"dispatch handles every ident in ident_values {idents} exactly once",
                  witness="hashing with an advertised ident raises AssertionError / is treated as another variant")
        ok = bool(final_else) and any(isinstance(x, ast.Raise) for x in final_else)
        rep.check(ok, RI, site(B, "_BcryptCommon._norm_digest_args"), "else: raise", "dispatch ends in a raising else")
    # raw_bcrypt's chain
    BF = "passlib.crypto._blowfish"
    fn = model.func(BF, "raw_bcrypt")
    u2 = model.unit(BF)
    seen = []
    for n in ast.walk(fn):
        if isinstance(n, ast.Compare) and ast.unparse(n.left) == "ident" and isinstance(n.ops[0], ast.Eq):
            seen.append(model.fold(u2, n.comparators[0]))
    if idents is not UNKNOWN:
        want = sorted(i.strip("$").encode() if isinstance(seen[0] if seen else b"", bytes) else i.strip("$") for i in idents)
        rep.check(sorted(seen) == want, RI, site(BF, "raw_bcrypt"), f"raw_bcrypt handles {seen}",
                  f"builtin core dispatches over the same idents (without '$'): {want}",
                  witness="an ident accepted by the handler raises / is mis-handled in the builtin backend")
    # scrypt: _parse_<ident>_string exists for every ident; to_string renders each
    S = "passlib.handlers.scrypt"
    sid = model.class_const((S, "scrypt"), "ident_values")
    if sid is UNKNOWN:
        rep.undecided(RI, site(S, "scrypt"), "ident_values unfoldable")
    else:
        for ident in sid:
            nm = f"_parse_{ident.strip('$')}_string"
            o, f = model.method((S, "scrypt"), nm, required=False)
            rep.check(f is not None, RI, site(S, "scrypt." + nm), nm, f"parser exists for ident {ident}",
                      witness=f"hashes with ident {ident} are produced but can never be parsed")
        ts = model.func(S, "scrypt.to_string")
        u3 = model.unit(S)
        handled = []
        for n in ast.walk(ts):
            if isinstance(n, ast.Compare) and ast.unparse(n.left) == "ident" and isinstance(n.ops[0], ast.Eq):
                handled.append(model.fold(u3, n.comparators[0]))
        rep.check(sorted(handled) == sorted(sid), RI, site(S, "scrypt.to_string"), f"to_string handles {handled}",
                  "renderer covers every ident")
    # fshp aliases range over variant info
    F = "passlib.handlers.fshp"
    fu = model.unit(F)
    info = model.class_const((F, "fshp"), "_variant_info")
    o, al = model.lookup((F, "fshp"), "_variant_aliases")
    if isinstance(info, dict) and al is not None:
        av = model.fold(fu, al, env={"_variant_info": info}, cls=(F, "fshp"))
        if isinstance(av, dict):
            rep.check(set(av.values()) <= set(info), RI, site(F, "fshp._variant_aliases"), f"alias targets {sorted(set(av.values()))}",
                      f"alias targets are variants {sorted(info)}")
        else:
            rep.hold(RI, site(F, "fshp._variant_aliases"), "aliases computed from _variant_info (comprehension)")
    # scrypt backend tables agree
    SC = "passlib.crypto.scrypt"
    su = model.unit(SC)
    bv = model.fold(su, ast.Name(id="backend_values"))
    bl = su.assigns.get("_backend_loaders")
    if bv is UNKNOWN or not bl:
        rep.undecided(RI, site(SC, "backend_values"), "backend tables unfoldable")
    else:
        keys = [k.arg for k in bl[0].keywords] if isinstance(bl[0], ast.Call) else [model.fold(su, k) for k in bl[0].keys]
        rep.check(sorted(keys) == sorted(bv), RI, site(SC, "_backend_loaders"), f"loaders {keys} vs values {bv}",
                  "every advertised scrypt backend has a loader", witness="advertised scrypt backend cannot be selected")
        for k in (bl[0].keywords if isinstance(bl[0], ast.Call) else []):
            rep.check(ast.unparse(k.value) in su.funcs, RI, site(SC, "_backend_loaders"), ast.unparse(k.value), "loader function exists")
    # _set_backend: globals assigned only when not dryrun
    fn = model.func(SC, "_set_backend")
    body = fn.body
    idx_dry = next((i for i, st in enumerate(body) if isinstance(st, ast.If) and ast.unparse(st.test) == "dryrun"
                    and any(isinstance(x, ast.Return) for x in st.body)), None)
    idx_store = next((i for i, st in enumerate(body) if isinstance(st, ast.Assign) and ast.unparse(st.targets[0]) == "_scrypt"), None)
    rep.check(idx_dry is not None and idx_store is not None and idx_dry < idx_store, RI, site(SC, "_set_backend"),
              "if dryrun: return ... _scrypt = hash", "scrypt backend is switched only when not a dry run",
              witness="scrypt.has_backend('builtin') switches all scrypt hashing to the 100x slower builtin")
    st = next((s_ for s_ in body if isinstance(s_, ast.Assign) and ast.unparse(s_.targets[0]) == "_scrypt"), None)
    rep.check(st is not None and ast.unparse(st.value) == "hash", RI, site(SC, "_set_backend"), ast.unparse(st) if st else "<none>",
              "the loaded function is the one installed")
    # scrypt(): delegates to _scrypt with the same six arguments in order
    fn = model.func(SC, "scrypt")
    rets = [n for n in ast.walk(fn) if isinstance(n, ast.Return)]
    ok = len(rets) == 1 and ast.unparse(rets[0].value) == "_scrypt(secret, salt, n, r, p, keylen)"
    rep.check(ok, RI, site(SC, "scrypt"), ast.unparse(rets[0]) if rets else "<none>", "frontend passes (secret, salt, n, r, p, keylen) unchanged",
              witness="backends receive permuted cost parameters")
    # stdlib wrapper keyword mapping
    fn = model.func(SC, "_load_stdlib_backend.stdlib_scrypt_wrapper")
    call = [n for n in ast.walk(fn) if isinstance(n, ast.Call) and ast.unparse(n.func) == "stdlib_scrypt"]
    want = {"password": "secret", "salt": "salt", "n": "n", "r": "r", "p": "p", "dklen": "keylen", "maxmem": "maxmem"}
    got = {k.arg: ast.unparse(k.value) for k in call[0].keywords} if call else {}
    rep.check(got == want, RI, site(SC, "_load_stdlib_backend.stdlib_scrypt_wrapper"), str(got), "hashlib.scrypt keyword mapping",
              witness="stdlib backend computes with swapped r/p or wrong key length")
    # builtin loader returns ScryptEngine.execute
    fn = model.func(SC, "_load_builtin_backend")
    rets = [ast.unparse(n.value) for n in ast.walk(fn) if isinstance(n, ast.Return)]
    rep.check(rets == ["ScryptEngine.execute"], RI, site(SC, "_load_builtin_backend"), "; ".join(rets), "builtin loader returns ScryptEngine.execute")
    rep.minimum(RI, 10)


def rule_utf8_cuts(model, rep):
    """the os_crypt backend can only be fed valid UTF-8 (crypt() takes text): wherever bcrypt's shared secret preparation cuts or repeats
    the secret to a byte count, the branch taken when `require_valid_utf8_bytes` holds must use the UTF-8 aware helper"""
    R = "C03.n-utf8-aware-cuts"
    BC_ = "passlib.handlers.bcrypt"
    fn = model.func(BC_, "_BcryptCommon._norm_digest_args")
    unit = model.unit(BC_)
    n = 0
    for c in walk_no_nested(fn):
        cut = None
        if isinstance(c, ast.Call) and isinstance(c.func, ast.Name) and c.func.id in ("repeat_string",) and c.args and ast.unparse(c.args[0]) == "secret":
            cut = ast.unparse(c)
        if isinstance(c, ast.Assign) and isinstance(c.value, ast.Subscript) and ast.unparse(c.value.value) == "secret" and isinstance(c.value.slice, ast.Slice) \
                and ast.unparse(c.targets[0]) == "secret":
            cut = ast.unparse(c)
        if cut is None:
            continue
        n += 1
        ok = False
        cur = c
        while cur is not None and cur is not fn:
            par = unit.parent(cur)
            if isinstance(par, ast.If) and ast.unparse(par.test) == "require_valid_utf8_bytes" and any(cur is x or any(cur is y for y in ast.walk(x)) for x in par.orelse):
                aware = [ast.unparse(x.func) for s in par.body for x in ast.walk(s) if isinstance(x, ast.Call)]
                ok = any(a.startswith("utf8_") for a in aware)
            cur = par
        rep.check(ok, R, site(BC_, "_BcryptCommon._norm_digest_args"), cut, "a byte-exact cut / repeat of the secret only happens when the backend does not need valid UTF-8; the other branch uses utf8_truncate / utf8_repeat_string",
                  witness="bcrypt.set_backend('os_crypt'); bcrypt.using(ident='2').hash('p\u00e4ssw\u00f6rd') raises PasswordValueError (a character is cut at byte 72) while the bcrypt backend hashes it")
    if n < 2:
        rep.undecided(R, "<instance-count>", f"only {n} byte cuts of the secret found in _norm_digest_args, expected at least 2")
    # ... and that flag holds for *text* secrets too (they are valid UTF-8 by construction): it starts out as the backend's requirement,
    # unconditionally, and is only ever lowered for bytes that fail to decode
    asg = [a for a in walk_no_nested(fn) if isinstance(a, ast.Assign) and ast.unparse(a.targets[0]) == "require_valid_utf8_bytes"]
    top = [a for a in asg if a in fn.body]
    others = [a for a in asg if a not in fn.body]
    ok = len(top) == 1 and ast.unparse(top[0].value) == "cls._require_valid_utf8_bytes" and \
        all(ast.unparse(a.value) == "False" and unit.enclosing(a, ast.ExceptHandler) is not None for a in others)
    rep.check(ok, R, site(BC_, "_BcryptCommon._norm_digest_args") + " flag", "; ".join(ast.unparse(a) for a in asg)[:120],
              "require_valid_utf8_bytes is the backend's requirement for every secret (text included) and is lowered only for bytes that are not valid UTF-8",
              witness="bcrypt.set_backend('os_crypt'); bcrypt.using(ident='2').hash('\u20acuro1') raises PasswordValueError: the 72-byte repetition ends inside a character because the "
                      "UTF-8 aware helpers are only enabled for bytes secrets")


def rule_load_before_commit(model, rep):
    """a backend is installed (mixin classes swapped, active name recorded) only after its loader has accepted it: the loader call -- which
    raises MissingBackendError for a backend this host does not have -- precedes every commit, unconditionally"""
    R = "C03.o-load-before-commit"
    fn = model.func(UH, "SubclassBackendMixin._set_backend")
    body = [s for s in fn.body if not (isinstance(s, ast.Expr) and isinstance(s.value, ast.Constant))]

    def top_index(pred):
        return next((i for i, st in enumerate(body) if isinstance(st, ast.Expr) and isinstance(st.value, ast.Call) and pred(st.value)), None)
    i_load = top_index(lambda c: ast.unparse(c.func) == "super()._set_backend" and [ast.unparse(a) for a in c.args] == ["name", "dryrun"])
    commits = [i for i, st in enumerate(body) for c in ast.walk(st) if isinstance(c, ast.Call) and ast.unparse(c.func).split(".")[-1] == "update_mixin_classes"]
    if i_load is None or len(commits) != 1:
        rep.violation(R, site(UH, "SubclassBackendMixin._set_backend"), f"loader call at top level: {i_load}; update_mixin_classes calls: {len(commits)}",
                      "the loader is invoked unconditionally (super()._set_backend(name, dryrun)) and the mixin swap happens once",
                      witness="a refused backend is installed all the same")
    else:
        rep.check(i_load < commits[0], R, site(UH, "SubclassBackendMixin._set_backend"), f"super()._set_backend @{i_load}, update_mixin_classes @{commits[0]}",
                  "the loader (which refuses an unavailable backend by raising) runs before the class bases are rewritten",
                  witness="bcrypt.set_backend('builtin') is refused with MissingBackendError, yet bcrypt's bases already hold the builtin mixin: get_backend() still says "
                          "'bcrypt' and every later hash()/verify() raises TypeError")
    fn = model.func(UH, "BackendMixin._set_backend")
    t = qtext(fn)
    ok = bool(find_if(fn, "ok is False")) and "raise exc.MissingBackendError(" in str(t) and "ok = loader(**kwds)" in str(t)
    rep.check(ok, R, site(UH, "BackendMixin._set_backend"), "ok = loader(**kwds); if ok is False: raise MissingBackendError", "a loader answering False refuses the backend by raising")
    fn = model.func(UH, "BackendMixin.set_backend")
    pos = order_of(fn, ["cls._set_backend(name, dryrun)", "cls.__backend = name"])
    rep.check(None not in pos and pos[0] < pos[1], R, site(UH, "BackendMixin.set_backend"), f"_set_backend @{pos[0]}, __backend store @{pos[1]}",
              "the active backend name is recorded only after the loader accepted the backend",
              witness="a refused backend is reported by get_backend() although nothing was loaded")


def run(model, rep):
    rep.explanation = __doc__
    rep.assumptions = ["bcrypt >= 5.0 raises ValueError for secrets longer than 72 bytes (documented library contract; bcrypt 5.0.0 is installed)",
                       "crypt(3) answers are trusted only after the prefix/length guard checked here"]
    rule_a(model, rep)
    rule_b(model, rep)
    rule_cd(model, rep)
    rule_e(model, rep)
    rule_e_oscrypt(model, rep)
    rule_f(model, rep)
    rule_g(model, rep)
    rule_load_before_commit(model, rep)
    from . import shared as _shared
    _shared.rule_len_after_encode(model, rep, "C03.p-length-in-bytes", ("passlib.handlers",), minimum=15)
    rule_hi(model, rep)
    rule_l(model, rep)
    rule_m(model, rep)
    rule_utf8_cuts(model, rep)
    # the builtin sha1-crypt / pbkdf2 backends agree with crypt(3) only if the HMAC they are built on is RFC 2104's
    from . import prim
    prim.rule_hmac(model, rep, "C03.j-builtin-hmac")
    # ... and only if the pure-Python fall-backs compute the algorithm crypt(3) implements: tables, sibling copy and recipes (rules shared with C02)
    from . import c02, shared
    ren = shared.Renamed(rep, {"C02.a": "C03.k-builtin-follows-spec", "C02.c": "C03.k-builtin-follows-spec", "C02.d": "C03.k-builtin-follows-spec"})
    c02.rule_tables(model, ren)
    c02.rule_sibling(model, ren)
    c02.rule_recipes(model, ren)
