"""Positive controls (thorough tier and `./selftest`): each control is a small source edit applied to a
scratch copy of the analysed packages (under tempfile, outside /repo and /verif, removed at once);
the property's rules must then report a VIOLATION from the named rule.  A control whose anchor text
no longer occurs in the tree is *stale* (reported, not a failure); a control that applies but does
not fire means the checker is broken (exit 2)."""
from __future__ import annotations

import importlib
import os
import shutil
import sys
import tempfile
from concurrent.futures import ProcessPoolExecutor

from .model import Model, AnalysisError, REPO, PACKAGES
from .report import Report


def load_controls():
    from selftest import controls as C
    return C.CONTROLS


def _apply(root, ctl):
    path = os.path.join(root, ctl["file"])
    with open(path, encoding="utf-8") as fh:
        src = fh.read()
    edits = ctl.get("edits") or [(ctl["old"], ctl["new"])]
    for old, new in edits:
        if src.count(old) != 1:
            return False
        src = src.replace(old, new)
    with open(path, "w", encoding="utf-8") as fh:
        fh.write(src)
    return True


def run_one(args):
    ctl, repo = args
    tmp = tempfile.mkdtemp(prefix="pvctl_")
    try:
        for pkg in PACKAGES:
            shutil.copytree(os.path.join(repo, pkg), os.path.join(tmp, pkg),
                            ignore=shutil.ignore_patterns("__pycache__", "*.pyc"))
        if not _apply(tmp, ctl):
            return ctl["id"], "stale", ""
        os.environ["PV_EVIDENCE_DIR"] = os.path.join(tmp, "_evidence")
        import pv.report as R
        R.EVIDENCE_DIR = os.environ["PV_EVIDENCE_DIR"]
        rep = Report(ctl["property"], "quick", quiet=True)
        try:
            mod = importlib.import_module("rules." + ctl["property"].lower())
            model = Model(tmp)
            rep.units = sorted(model.units)
            mod.run(model, rep)
        except AnalysisError as e:
            rep.undecided("engine", "<anchor>", str(e))
        except Exception as e:
            rep.undecided("engine", "<exception>", f"{type(e).__name__}: {e}")
        rep.finish()
        viol = rep.result["violations"]
        want = ctl.get("rule", "")
        hit = [o for o in viol if want in o["rule"]]
        if hit:
            return ctl["id"], "fired", hit[0]["rule"] + " @ " + hit[0]["site"]
        und = rep.result["undecided"]
        if ctl.get("expect") == "undecided" and und:
            return ctl["id"], "fired", "undecided: " + und[0]["detail"][:80]
        detail = "; ".join(o["rule"] + "@" + o["site"] for o in viol[:3]) or ("undecided: " + "; ".join(o["detail"][:80] for o in und[:2]) if und else "no report")
        return ctl["id"], "silent", detail
    finally:
        shutil.rmtree(tmp, ignore_errors=True)


def run_controls(prop, rep=None, jobs=None, verbose=True):
    ctls = [c for c in load_controls() if prop in (c["property"], "all") or prop == "all"]
    if prop != "all":
        ctls = [c for c in load_controls() if c["property"] == prop]
    if not ctls:
        if verbose:
            print(f"[{prop}] no positive controls registered")
        return 0
    jobs = jobs or min(16, len(ctls))
    with ProcessPoolExecutor(max_workers=jobs) as ex:
        results = list(ex.map(run_one, [(c, REPO) for c in ctls]))
    fired = [r for r in results if r[1] == "fired"]
    stale = [r for r in results if r[1] == "stale"]
    silent = [r for r in results if r[1] == "silent"]
    if verbose:
        print(f"[{prop}] positive controls: {len(fired)} fired, {len(stale)} stale, {len(silent)} silent (of {len(results)})")
        for cid, st, det in results:
            if st != "fired":
                print(f"    control {cid}: {st} {det}")
    if rep is not None:
        # append to evidence
        import json
        from .report import EVIDENCE_DIR
        p = os.path.join(EVIDENCE_DIR, f"{prop}.json")
        try:
            ev = json.load(open(p))
            ev["tier"] = "thorough"
            ev["coverage"]["controls_total"] = len(results)
            ev["coverage"]["controls_fired"] = len(fired)
            ev["coverage"]["controls_stale"] = [r[0] for r in stale]
            ev["coverage"]["controls_silent"] = [r[0] for r in silent]
            ev["coverage"]["control_samples"] = [dict(id=r[0], fired=r[2]) for r in fired[:10]]
            json.dump(ev, open(p, "w"), indent=1)
        except Exception:
            pass
    if silent:
        for cid, st, det in silent:
            print(f"ANALYSIS-ERROR property={prop} control {cid} applied but the rule did not fire ({det})")
        return 2
    return 0


def main(argv):
    prop = argv[0] if argv else "all"
    props = sorted({c["property"] for c in load_controls()}) if prop == "all" else [prop]
    worst = 0
    for p in props:
        worst = max(worst, run_controls(p))
    return worst
