"""Render-template and regex skeletons.

A skeleton is a list of items ('lit', text) | ('fld', label): the literal pieces a renderer emits
between its fields / the literal pieces a regex requires between its groups.  Comparing skeletons
decides whether a renderer's output shape and a parser's expectations agree on separators, order
and fixed text -- independent of how either is spelled (%-format, str.format, f-string, helper)."""
from __future__ import annotations

import ast
import re
import re._parser as sp
import string


class Unsupported(Exception):
    pass


def _merge(items):
    out = []
    for it in items:
        if it[0] == "lit":
            if not it[1]:
                continue
            if out and out[-1][0] == "lit":
                out[-1] = ("lit", out[-1][1] + it[1])
                continue
        out.append(it)
    return out


def from_expr(e, fold=None):
    """skeleton of a string-building expression"""
    if isinstance(e, ast.Constant) and isinstance(e.value, (str, bytes)):
        v = e.value.decode("latin-1") if isinstance(e.value, bytes) else e.value
        return [("lit", v)]
    if isinstance(e, ast.JoinedStr):
        items = []
        for v in e.values:
            if isinstance(v, ast.Constant):
                items.append(("lit", str(v.value)))
            else:
                spec = ast.unparse(v.format_spec) if v.format_spec else ""
                items.append(("fld", ast.unparse(v.value) + (":" + spec.strip("f'\"") if spec else "")))
        return _merge(items)
    if isinstance(e, ast.BinOp) and isinstance(e.op, ast.Mod):
        fmt = fold(e.left) if fold else None
        if not isinstance(fmt, str):
            if isinstance(e.left, ast.Constant) and isinstance(e.left.value, str):
                fmt = e.left.value
            else:
                raise Unsupported("format string does not fold")
        args = list(e.right.elts) if isinstance(e.right, ast.Tuple) else [e.right]
        items = []
        pos = 0
        ai = 0
        for m in re.finditer(r"%(?:\((\w+)\))?([-#0 +]*\d*(?:\.\d+)?)([sdxXrif%])", fmt):
            items.append(("lit", fmt[pos:m.start()]))
            pos = m.end()
            if m.group(3) == "%":
                items.append(("lit", "%"))
                continue
            label = ast.unparse(args[ai]) if ai < len(args) else "?"
            ai += 1
            items.append(("fld", label + (":" + m.group(2) + m.group(3) if (m.group(2) or m.group(3) != "s") else "")))
        items.append(("lit", fmt[pos:]))
        return _merge(items)
    if isinstance(e, ast.Call) and isinstance(e.func, ast.Attribute) and e.func.attr == "format" and isinstance(e.func.value, ast.Constant):
        fmt = e.func.value.value
        items = []
        ai = 0
        for lit, field, spec, conv in string.Formatter().parse(fmt):
            items.append(("lit", lit))
            if field is not None:
                if field == "":
                    label = ast.unparse(e.args[ai]) if ai < len(e.args) else "?"
                    ai += 1
                elif field.isdigit():
                    label = ast.unparse(e.args[int(field)])
                else:
                    kw = {k.arg: k.value for k in e.keywords}
                    label = ast.unparse(kw[field]) if field in kw else field
                items.append(("fld", label + (":" + spec if spec else "")))
        return _merge(items)
    if isinstance(e, ast.BinOp) and isinstance(e.op, ast.Add):
        return _merge(from_expr(e.left, fold) + from_expr(e.right, fold))
    if isinstance(e, (ast.Name, ast.Attribute, ast.Call, ast.Subscript, ast.BoolOp, ast.IfExp)):
        if fold:
            v = fold(e)
            if isinstance(v, str):
                return [("lit", v)]
        return [("fld", ast.unparse(e))]
    raise Unsupported(type(e).__name__)


def from_regex(pattern, flags=0):
    """skeleton of a regex: literals and named/anonymous groups in order; optional parts are marked ('opt', [...])"""
    if isinstance(pattern, bytes):
        pattern = pattern.decode("latin-1")
    parsed = sp.parse(pattern, flags)
    gnames = {v: k for k, v in parsed.state.groupdict.items()}

    def walk(seq):
        items = []
        for op, av in seq:
            op = str(op)
            if op == "LITERAL":
                items.append(("lit", chr(av)))
            elif op == "AT":
                continue
            elif op == "SUBPATTERN":
                gid = av[0]
                if gid is not None:
                    items.append(("fld", gnames.get(gid, f"#{gid}")))
                else:
                    items += walk(av[3])
            elif op in ("MAX_REPEAT", "MIN_REPEAT"):
                lo, hi, sub = av
                inner = walk(sub)
                only_class = all(str(o) in ("IN", "ANY", "NOT_LITERAL", "CATEGORY") for o, _ in sub)
                if only_class:
                    items.append(("fld", f"<{lo}..{hi}>"))
                elif lo == 0:
                    items.append(("opt", tuple(inner)))
                else:
                    items += inner
            elif op in ("IN", "ANY", "NOT_LITERAL"):
                if op == "IN" and len(av) == 1 and str(av[0][0]) == "LITERAL":
                    items.append(("lit", chr(av[0][1])))
                else:
                    items.append(("fld", "<1>"))
            elif op == "BRANCH":
                items.append(("fld", "<branch>"))
            else:
                raise Unsupported(op)
        return items
    return _merge(walk(parsed))


def literals(skel, include_optional=True):
    out = []
    for it in skel:
        if it[0] == "lit":
            out.append(it[1])
        elif it[0] == "opt" and include_optional:
            out += literals(list(it[1]))
    return out


def group_repeats(pattern, flags=0):
    """{group name: (lo, hi)} for named groups whose body is a single repeated class"""
    if isinstance(pattern, bytes):
        pattern = pattern.decode("latin-1")
    parsed = sp.parse(pattern, flags)
    gnames = {v: k for k, v in parsed.state.groupdict.items()}
    out = {}

    def walk(seq):
        for op, av in seq:
            op = str(op)
            if op == "SUBPATTERN":
                gid, sub = av[0], av[3]
                if gid in gnames and len(sub) >= 1 and str(sub[0][0]) in ("MAX_REPEAT", "MIN_REPEAT"):
                    lo, hi, _ = sub[0][1]
                    out[gnames[gid]] = (lo, hi)
                walk(sub)
            elif op in ("MAX_REPEAT", "MIN_REPEAT"):
                walk(av[2])
            elif op == "BRANCH":
                for alt in av[1]:
                    walk(alt)
    walk(parsed)
    return out


def all_repeats(pattern, flags=0):
    """every (lo, hi) of class repeats in pattern order"""
    if isinstance(pattern, bytes):
        pattern = pattern.decode("latin-1")
    out = []

    def walk(seq):
        for op, av in seq:
            op = str(op)
            if op in ("MAX_REPEAT", "MIN_REPEAT"):
                lo, hi, sub = av
                if all(str(o) in ("IN", "ANY", "NOT_LITERAL", "LITERAL") for o, _ in sub):
                    out.append((lo, hi))
                walk(sub)
            elif op == "SUBPATTERN":
                walk(av[3])
            elif op == "BRANCH":
                for alt in av[1]:
                    walk(alt)
    walk(sp.parse(pattern, flags))
    return out


# ----------------------------------------------------------------------------- render paths
def tokens(skel):
    """skeleton -> token list: one ('lit', ch) per literal character, ('fld', label) per field"""
    out = []
    for it in skel:
        if it[0] == "lit":
            out += [("lit", c) for c in it[1]]
        else:
            out.append(it)
    return out


class _Env(dict):
    pass


def _expr_skel(e, env, fold):
    """like from_expr, but names bound in env to skeletons are inlined, and `name % args` uses the bound text"""
    if isinstance(e, ast.Name) and e.id in env:
        return list(env[e.id])
    if isinstance(e, ast.Constant) and isinstance(e.value, (str, bytes)):
        return from_expr(e)
    if isinstance(e, ast.JoinedStr):
        items = []
        for v in e.values:
            if isinstance(v, ast.Constant):
                items.append(("lit", str(v.value)))
            elif isinstance(v.value, ast.Name) and v.value.id in env and not v.format_spec:
                items += env[v.value.id]
            else:
                inner = _expr_skel(v.value, env, fold) if not v.format_spec else None
                if inner is not None and all(i[0] == "lit" for i in inner):
                    items += inner
                else:
                    spec = "".join(x.value for x in v.format_spec.values if isinstance(x, ast.Constant)) if v.format_spec else ""
                    items.append(("fld", _label(v.value, env) + (" %" + spec if spec else "")))
        return _merge(items)
    if isinstance(e, ast.BinOp) and isinstance(e.op, ast.Mod):
        left = _expr_skel(e.left, env, fold)
        if not all(i[0] == "lit" for i in left):
            raise Unsupported("format string is not a literal on this path: " + ast.unparse(e.left))
        fmt = "".join(i[1] for i in left)
        args = list(e.right.elts) if isinstance(e.right, ast.Tuple) else [e.right]
        items, pos, ai = [], 0, 0
        for m in re.finditer(r"%(?:\((\w+)\))?([-#0 +]*\d*(?:\.\d+)?)([sdxXrif%])", fmt):
            items.append(("lit", fmt[pos:m.start()]))
            pos = m.end()
            if m.group(3) == "%":
                items.append(("lit", "%"))
                continue
            if ai >= len(args):
                raise Unsupported("more conversions than arguments")
            a = args[ai]
            ai += 1
            spec = m.group(2) + m.group(3)
            if spec == "s":
                items += _expr_skel(a, env, fold)
            else:
                items.append(("fld", _label(a, env) + " %" + spec))
        if ai != len(args):
            raise Unsupported("fewer conversions than arguments")
        items.append(("lit", fmt[pos:]))
        return _merge(items)
    if isinstance(e, ast.Call) and isinstance(e.func, ast.Attribute) and e.func.attr == "format" and isinstance(e.func.value, ast.Constant):
        fmt = e.func.value.value
        items, ai = [], 0
        kw = {k.arg: k.value for k in e.keywords}
        for lit, field, spec, conv in string.Formatter().parse(fmt):
            items.append(("lit", lit))
            if field is None:
                continue
            if field == "":
                a = e.args[ai]
                ai += 1
            elif field.isdigit():
                a = e.args[int(field)]
            else:
                a = kw.get(field)
                if a is None:
                    raise Unsupported("format field " + field)
            if spec:
                items.append(("fld", _label(a, env) + " %" + spec))
            else:
                items += _expr_skel(a, env, fold)
        return _merge(items)
    if isinstance(e, ast.BinOp) and isinstance(e.op, ast.Add):
        return _merge(_expr_skel(e.left, env, fold) + _expr_skel(e.right, env, fold))
    if isinstance(e, ast.Call):
        fn = ast.unparse(e.func)
        # "".join([...]) / b"".join([...]) / join_unicode(parts)
        if isinstance(e.func, ast.Attribute) and e.func.attr == "join" and isinstance(e.func.value, ast.Constant) and e.func.value.value in ("", b"") and len(e.args) == 1:
            seq = e.args[0]
            if isinstance(seq, ast.Name) and seq.id in env.get("__lists__", {}):
                seq = env["__lists__"][seq.id]
            if isinstance(seq, (ast.List, ast.Tuple)):
                out = []
                for x in seq.elts:
                    out += _expr_skel(x, env, fold)
                return _merge(out)
        # transparent text wrappers
        if fn in ("bascii_to_str", "str_to_uascii", "as_str", "to_native_str", "to_unicode", "uascii_to_str") and e.args:
            inner = _expr_skel(e.args[0], env, fold)
            if not (len(inner) == 1 and inner[0][0] == "fld"):
                return inner
        if isinstance(e.func, ast.Attribute) and e.func.attr in ("decode", "encode") and not isinstance(e.func.value, ast.Constant):
            inner = _expr_skel(e.func.value, env, fold)
            if not (len(inner) == 1 and inner[0][0] == "fld"):
                return inner
    if fold is not None:
        v = fold(e)
        if isinstance(v, bytes):
            v = v.decode("latin-1")
        if isinstance(v, str):
            return [("lit", v)] if v else []
    return [("fld", _label(e, env))]


def _label(e, env):
    """label of an opaque field: the expression with local aliases expanded once"""
    labels = env.get("__labels__", {})

    class S(ast.NodeTransformer):
        def visit_Name(self, n):
            if n.id in labels:
                return labels[n.id]
            return n
    import copy
    return ast.unparse(S().visit(copy.deepcopy(e)))


def _live(trail, expr, env):
    """drop decisions of the form `name±(test)` (forks on a conditional *assignment*) whose variable does not reach
    the returned expression"""
    used = {n.id for n in ast.walk(expr) if isinstance(n, ast.Name)}
    for d in list(used):
        used |= env.get("__deps__", {}).get(d, set())
    out = []
    for t in trail:
        m = re.match(r"^(\w+)[+-]\(", t)
        if m and m.group(1) not in used:
            continue
        out.append(t)
    return out


def render_paths(fn, fold, limit=64):
    """every (token list, path description) a string-returning function can produce, forking at if/else and
    conditional expressions whose test does not fold.  Raises Unsupported on constructs outside the model."""
    results = []

    def assign(env, name, value):
        env = _Env(env)
        env["__lists__"] = dict(env.get("__lists__", {}))
        env["__labels__"] = dict(env.get("__labels__", {}))
        if isinstance(value, (ast.List, ast.Tuple)):
            env["__lists__"][name] = value
            env.pop(name, None)
            return env
        sk = _expr_skel(value, env, fold)
        env["__labels__"][name] = ast.parse(_label(value, env), mode="eval").body
        env["__deps__"] = dict(env.get("__deps__", {}))
        deps = {n.id for n in ast.walk(value) if isinstance(n, ast.Name)}
        for d in list(deps):
            deps |= env["__deps__"].get(d, set())
        env["__deps__"][name] = deps
        if len(sk) == 1 and sk[0][0] == "fld":
            env.pop(name, None)
        else:
            env[name] = sk
        return env

    def run(stmts, env, trail):
        """-> list of (env, trail) that fall through"""
        states = [(env, trail)]
        for st in stmts:
            nxt = []
            for env, trail in states:
                if len(results) > limit:
                    raise Unsupported("too many paths")
                if isinstance(st, ast.Expr):
                    nxt.append((env, trail))
                elif isinstance(st, (ast.Assert, ast.Pass, ast.Raise)):
                    if not isinstance(st, ast.Raise):
                        nxt.append((env, trail))
                elif isinstance(st, ast.Assign) and len(st.targets) == 1 and isinstance(st.targets[0], ast.Name):
                    name = st.targets[0].id
                    if isinstance(st.value, ast.IfExp):
                        for br, tag in ((st.value.body, "+"), (st.value.orelse, "-")):
                            nxt.append((assign(env, name, br), trail + [f"{name}{tag}({_label(st.value.test, env)})"]))
                    else:
                        nxt.append((assign(env, name, st.value), trail))
                elif isinstance(st, ast.If):
                    t = fold(st.test) if fold else None
                    branches = []
                    if t is True or (isinstance(t, (int, str)) and not isinstance(t, bool) and t):
                        branches = [(st.body, "+")]
                    elif t is False or t == 0 or t == "":
                        branches = [(st.orelse, "-")]
                    else:
                        branches = [(st.body, "+"), (st.orelse, "-")]
                    for body, tag in branches:
                        nxt += run(body, env, trail + [f"{tag}({_label(st.test, env)})"])
                elif isinstance(st, ast.Return):
                    if st.value is None:
                        raise Unsupported("bare return")
                    if isinstance(st.value, ast.IfExp):
                        for br, tag in ((st.value.body, "+"), (st.value.orelse, "-")):
                            results.append((tokens(_expr_skel(br, env, fold)), trail + [f"{tag}({_label(st.value.test, env)})"]))
                    else:
                        results.append((tokens(_expr_skel(st.value, env, fold)), _live(trail, st.value, env)))
                elif isinstance(st, ast.Try):
                    nxt += run(st.body, env, trail)
                else:
                    raise Unsupported("statement " + type(st).__name__ + ": " + ast.unparse(st)[:60])
            states = nxt
        return states

    body = [s for s in fn.body if not (isinstance(s, ast.Expr) and isinstance(s.value, ast.Constant))]
    run(body, _Env(), [])
    return results


# ----------------------------------------------------------------------------- token matcher
def _class_pred(node):
    """char predicate of one sre class item (IN / ANY / NOT_LITERAL / LITERAL / CATEGORY)"""
    from .lang import _in_match, _cat_match
    op, av = str(node[0]), node[1]
    if op == "ANY":
        return lambda c: c != "\n"
    if op == "LITERAL":
        return lambda c: ord(c) == av
    if op == "NOT_LITERAL":
        return lambda c: ord(c) != av
    if op == "IN":
        return lambda c: _in_match(av, c, False)
    return None


def match_tokens(pattern, flags, toks, max_group_reps=3):
    """Does the token sequence fit the regex's skeleton?  A field token stands for an arbitrary value of one
    field: it can be consumed by a capturing group as a whole or by a character-class repeat.
    -> list of pairings [(group name, field label)] of the first full match, or None."""
    if isinstance(pattern, bytes):
        pattern = pattern.decode("latin-1")
    parsed = sp.parse(pattern, flags)
    gnames = {v: k for k, v in parsed.state.groupdict.items()}
    n = len(toks)
    icase = bool(flags & re.I)

    def lit_ok(c, j):
        if j < n and toks[j][0] == "lit":
            return toks[j][1] == c or (icase and toks[j][1].lower() == c.lower())
        return False

    def seq(nodes, i, j, pairs, cur):
        """generator of (j', pairs)"""
        if i == len(nodes):
            yield j, pairs
            return
        op, av = str(nodes[i][0]), nodes[i][1]
        if op == "AT":
            yield from seq(nodes, i + 1, j, pairs, cur)
        elif op == "LITERAL":
            if lit_ok(chr(av), j):
                yield from seq(nodes, i + 1, j + 1, pairs, cur)
        elif op in ("IN", "ANY", "NOT_LITERAL"):
            pred = _class_pred(nodes[i])
            if j < n and ((toks[j][0] == "lit" and pred(toks[j][1])) or toks[j][0] == "fld"):
                p2 = pairs + [(cur, toks[j][1])] if (toks[j][0] == "fld" and cur) else pairs
                yield from seq(nodes, i + 1, j + 1, p2, cur)
        elif op == "SUBPATTERN":
            gid, sub = av[0], av[3]
            name = gnames.get(gid, f"#{gid}") if gid is not None else None
            if gid is not None and j < n and toks[j][0] == "fld":
                # the whole group is one field value
                yield from seq(nodes, i + 1, j + 1, pairs + ([(name, toks[j][1])] if name else []), cur)
            for j2, p2 in seq(list(sub), 0, j, pairs, name or cur):
                yield from seq(nodes, i + 1, j2, p2, cur)
        elif op == "BRANCH":
            for alt in av[1]:
                for j2, p2 in seq(list(alt), 0, j, pairs, cur):
                    yield from seq(nodes, i + 1, j2, p2, cur)
        elif op in ("MAX_REPEAT", "MIN_REPEAT"):
            lo, hi, sub = av
            sub = list(sub)
            if len(sub) == 1 and str(sub[0][0]) in ("IN", "ANY", "NOT_LITERAL", "LITERAL"):
                pred = _class_pred(sub[0])
                # consume k tokens: at most one field (an arbitrary run of the class) and literal chars inside the class;
                # longest first, like the regex engine
                cands = []
                k, lits, flds = 0, 0, 0
                p2 = pairs
                while True:
                    if flds or lits >= lo:
                        cands.append((k, p2))
                    if j + k >= n:
                        break
                    t = toks[j + k]
                    if t[0] == "fld":
                        if flds:
                            break
                        flds += 1
                        if cur:
                            p2 = p2 + [(cur, t[1])]
                    elif pred(t[1]) and lits < min(hi, 4096):
                        lits += 1
                    else:
                        break
                    k += 1
                for k, p2 in reversed(cands):
                    yield from seq(nodes, i + 1, j + k, p2, cur)
            else:
                def rep(count, j, pairs):
                    if count < min(hi, max(lo, max_group_reps)):
                        for j2, p2 in seq(sub, 0, j, pairs, cur):
                            if j2 > j or count < lo:
                                yield from rep(count + 1, j2, p2)
                    if count >= lo:
                        yield from seq(nodes, i + 1, j, pairs, cur)
                yield from rep(0, j, pairs)
        elif op == "GROUPREF":
            return
        else:
            raise Unsupported(op)

    for j, pairs in seq(list(parsed), 0, 0, [], None):
        if j == n:
            return pairs
    return None


CANON = {
    "rounds": "rounds", "time_cost": "rounds", "cost": "rounds",
    "salt": "salt", "chk": "chk", "checksum": "chk", "digest": "chk", "hash": "chk",
    "ident": "type", "type": "type", "prefix": "type", "variant": "type",
    "version": "version", "version_": "version", "memory_cost": "memory", "parallelism": "parallelism",
    "data": "data", "keyid": "keyid", "digest_name": "digest_name", "DIGEST_NAME": "digest_name",
}


def canon_of(text):
    found = {CANON[w] for w in re.findall(r"[A-Za-z_]\w*", text) if w in CANON}
    return next(iter(found)) if len(found) == 1 else None


def show(toks):
    return "".join(t[1] if t[0] == "lit" else "<" + t[1][:28] + ">" for t in toks)


def group_shape(pattern, flags, name):
    """for named group `name`: (list of class-repeat (lo, hi) inside it, literal text that follows the last repeat inside it)"""
    if isinstance(pattern, bytes):
        pattern = pattern.decode("latin-1")
    parsed = sp.parse(pattern, flags)
    gid = parsed.state.groupdict.get(name)
    found = []

    def walk(seq):
        for op, av in seq:
            op = str(op)
            if op == "SUBPATTERN":
                if av[0] == gid:
                    found.append(list(av[3]))
                walk(av[3])
            elif op in ("MAX_REPEAT", "MIN_REPEAT"):
                walk(av[2])
            elif op == "BRANCH":
                for alt in av[1]:
                    walk(alt)
    walk(parsed)
    if not found:
        return None
    reps, tail = [], ""
    for op, av in found[0]:
        op = str(op)
        if op in ("MAX_REPEAT", "MIN_REPEAT"):
            sub = list(av[2])
            if len(sub) == 1 and str(sub[0][0]) == "LITERAL":
                tail += f"{chr(sub[0][1])}{{{av[0]},{av[1]}}}"
            else:
                reps.append((av[0], av[1]))
                tail = ""
        elif op == "LITERAL":
            tail += chr(av)
    return reps, tail


def leading_literals(pattern, flags=0, limit=64):
    """set of literal prefixes P such that every string the regex matches starts with some p in P
    (literals and alternations of literals are followed; the walk stops at the first other construct)"""
    if isinstance(pattern, bytes):
        pattern = pattern.decode("latin-1")

    def walk(seq, prefixes):
        """-> (prefixes, complete?)"""
        for op, av in seq:
            op = str(op)
            if op == "AT":
                continue
            if op == "LITERAL":
                prefixes = {p + chr(av) for p in prefixes}
            elif op == "SUBPATTERN":
                prefixes, done = walk(av[3], prefixes)
                if not done:
                    return prefixes, False
            elif op == "BRANCH":
                out, alldone = set(), True
                for alt in av[1]:
                    p2, done = walk(alt, prefixes)
                    out |= p2
                    alldone = alldone and done
                prefixes = out
                if not alldone or len(prefixes) > limit:
                    return prefixes, False
            else:
                return prefixes, False
        return prefixes, True
    return walk(sp.parse(pattern, flags), {""})[0]


def group_rejects(pattern, flags, name, chars):
    """characters of `chars` that the (first) character-class repeat inside named group `name` does not accept;
    None if the group or a class repeat in it is not found"""
    if isinstance(pattern, bytes):
        pattern = pattern.decode("latin-1")
    parsed = sp.parse(pattern, flags)
    gid = parsed.state.groupdict.get(name)
    found = []

    def walk(seq):
        for op, av in seq:
            op = str(op)
            if op == "SUBPATTERN":
                if av[0] == gid:
                    found.append(list(av[3]))
                walk(av[3])
            elif op in ("MAX_REPEAT", "MIN_REPEAT"):
                walk(av[2])
            elif op == "BRANCH":
                for alt in av[1]:
                    walk(alt)
    walk(parsed)
    if not found:
        return None
    for op, av in found[0]:
        if str(op) in ("MAX_REPEAT", "MIN_REPEAT") and len(av[2]) == 1:
            pred = _class_pred(list(av[2])[0])
            if pred is not None:
                return "".join(c for c in chars if not pred(c))
    return None
