"""Equivalence by normalisation against the reference tree (anchors/tree).

The rules of /verif were confirmed statement by statement on one concrete shape of every function: the *reference tree*
committed under anchors/tree (a copy of /repo's sources at the time the rules were last confirmed).  Many rules are shape
facts ("verify() returns consteq(recomputed, stored)"), and a behaviour-preserving refactoring (a renamed local, an
extracted temporary or helper, an early return, an f-string) changes the shape without changing what the property is about.

On every run, for each function / method / module-level or class-level assignment of the current tree that has a
counterpart in the reference tree, both sides are brought into a normal form by transformations that preserve behaviour:

  * documentation, logging, parameter/return annotations and local annotated assignments are dropped;
  * helper functions that exist on one side only are inlined at their call sites (simple helpers: straight-line body,
    one trailing return);
  * spelling of expressions: dict(...)/set([...])/list(gen)/dict(gen) vs literals and comprehensions, %-formatting and
    str.format() vs f-strings, super(C, self) vs super(), `not` pushed inward (De Morgan, ==/!=, in/not in, is/is not),
    chained comparisons expanded, membership tests against list displays, x.get(k, None), int constant folding, `x = x + y`
    vs `x += y` for names;
  * spelling of control flow: `if not c: A else: B` -> `if c: B else: A`; `else` after a branch that cannot fall through
    is flattened; a result variable assigned at the end of every branch and returned afterwards becomes returns in the
    branches; explicit loops that only `return True/False` on a test become any()/all(); `out = []; for ..: out.append(e)`
    becomes a comprehension; redundant `continue`/`pass` are dropped; tuple assignments without cross dependencies are split;
  * every local and parameter is split into its def-use webs (reaching definitions over the structured statements), so
    re-binding a parameter, reusing a name and introducing a fresh local are the same thing;
  * temporaries that are read once, in the next statement, before anything with a side effect is evaluated, are inlined;
    pure common-subexpression temporaries and copies of a name that is dead afterwards are propagated; tuples that are
    only packed and unpacked in full are scalarised; runs of independent pure assignments get one canonical order;
  * finally the locals (not the parameters) are renamed in order of first occurrence.

If the two normal forms are identical, the current code is equivalent to the reference shape and the rules are evaluated on
the reference shape of that item (with its line numbers moved to the current position).  Otherwise the current code is
analysed as it stands.  A change that alters behaviour (an operator, a constant, a dropped check, a reordered side effect)
changes the normal form, so it is never masked; `selftest_run` (every positive control must still fire) and the seeded faults
(`tools/seedeval_par.py`) are the standing check of that claim.
"""
from __future__ import annotations

import ast
import copy
import os
import string

VERIF = os.path.dirname(os.path.dirname(os.path.abspath(__file__)))
ANCHOR_ROOT = os.path.join(VERIF, "anchors", "tree")
_cache = {}
LOG_RECEIVERS = {"log", "logger", "logging", "_log", "LOG"}
PURE_BUILTINS = {"staticmethod", "classmethod", "len", "int", "str", "bytes", "ord", "chr", "isinstance", "tuple", "list", "bool", "float", "repr", "min", "max", "abs", "type", "getattr", "hasattr",
                 "sorted", "set", "dict", "frozenset", "range", "enumerate", "zip", "divmod", "id", "callable", "issubclass", "hash"}


_names = {}


def _class_names():
    """names defined as classes (and never as functions) anywhere in the reference tree"""
    if "classes" not in _names:
        cls, fns = set(), set()
        for dp, dn, fs in os.walk(ANCHOR_ROOT):
            for f in fs:
                if f.endswith(".py"):
                    try:
                        t = ast.parse(open(os.path.join(dp, f), encoding="utf-8").read())
                    except (OSError, SyntaxError):
                        continue
                    for n in ast.walk(t):
                        if isinstance(n, ast.ClassDef):
                            cls.add(n.name)
                        elif isinstance(n, (ast.FunctionDef, ast.AsyncFunctionDef)):
                            fns.add(n.name)
        _names["classes"] = cls - fns
    return _names["classes"]


#: methods of str / bytes / dict / hash objects that compute a value and change nothing (the receiver types are not known statically; the
#: names are specific enough in this code base)
PURE_METHODS = {"encode", "decode", "upper", "lower", "strip", "lstrip", "rstrip", "startswith", "endswith", "isdigit", "isascii", "isalnum", "split",
                "rsplit", "join", "replace", "format", "hex", "get", "keys", "values", "items", "copy", "digest", "hexdigest", "find", "rfind", "index",
                "count", "translate", "partition", "rpartition", "ljust", "rjust", "zfill", "title", "casefold", "bit_length", "to_bytes"}


#: aliases of tuples of builtin types that this code base defines once (passlib.utils.compat) and imports by name
_TYPE_ALIASES = {"unicode_or_bytes": ast.Tuple(elts=[ast.Name(id="str", ctx=ast.Load()), ast.Name(id="bytes", ctx=ast.Load())], ctx=ast.Load())}


def anchor_tree(rel):
    """parsed reference version of the file `rel` (e.g. 'passlib/context.py'), or None"""
    if rel not in _cache:
        p = os.path.join(ANCHOR_ROOT, rel)
        try:
            _cache[rel] = ast.parse(open(p, encoding="utf-8").read(), p)
        except (OSError, SyntaxError):
            _cache[rel] = None
    return _cache[rel]


# ----------------------------------------------------------------------------------------------------- small helpers
def _dump(node):
    return ast.dump(node, annotate_fields=False, include_attributes=False)


def _terminates(stmts):
    """the block cannot fall through"""
    if not stmts:
        return False
    s = stmts[-1]
    if isinstance(s, (ast.Return, ast.Raise, ast.Continue, ast.Break)):
        return True
    if isinstance(s, ast.If):
        return bool(s.orelse) and _terminates(s.body) and _terminates(s.orelse)
    if isinstance(s, ast.Try) and not s.finalbody:
        return _terminates(s.orelse if s.orelse else s.body) and all(_terminates(h.body) for h in s.handlers)
    return False


def _exits(stmts):
    """the block always leaves the function (return / raise), not merely the enclosing loop iteration"""
    if not stmts:
        return False
    s = stmts[-1]
    if isinstance(s, (ast.Return, ast.Raise)):
        return True
    if isinstance(s, ast.If):
        return bool(s.orelse) and _exits(s.body) and _exits(s.orelse)
    if isinstance(s, ast.Try) and not s.finalbody:
        return _exits(s.orelse if s.orelse else s.body) and all(_exits(h.body) for h in s.handlers)
    return False


def _is_docstring(st):
    return isinstance(st, ast.Expr) and isinstance(st.value, ast.Constant) and isinstance(st.value.value, str)


def _names_loaded(node):
    return {n.id for n in ast.walk(node) if isinstance(n, ast.Name)}


def _simple_pure(e):
    """expression whose evaluation has no side effect and cannot observe one: names, constants, attribute / subscript chains of those,
    arithmetic / comparisons / boolean operators over them, calls of a few pure builtins"""
    for n in ast.walk(e):
        if isinstance(n, ast.Call):
            if not (isinstance(n.func, ast.Name) and n.func.id in PURE_BUILTINS) and not (isinstance(n.func, ast.Attribute) and n.func.attr in PURE_METHODS):
                return False
        elif isinstance(n, (ast.Await, ast.Yield, ast.YieldFrom, ast.NamedExpr, ast.Lambda, ast.ListComp, ast.SetComp, ast.DictComp, ast.GeneratorExp)):
            return False
    return True


def _eval_order(node):
    """sub-expressions in (approximate) evaluation order"""
    out = []

    def go(n):
        if isinstance(n, ast.Call):
            go(n.func)
            for a in n.args:
                go(a)
            for k in n.keywords:
                go(k.value)
            out.append(n)
            return
        if isinstance(n, (ast.BoolOp, ast.IfExp, ast.Lambda, ast.ListComp, ast.SetComp, ast.DictComp, ast.GeneratorExp)):
            out.append(n)       # conditional evaluation inside: treated as one opaque step
            return
        if isinstance(n, ast.Assign):
            go(n.value)
            for t in n.targets:
                go(t)
            return
        for ch in ast.iter_child_nodes(n):
            go(ch)
        out.append(n)
    go(node)
    return out


# ----------------------------------------------------------------------------------------------------- expression spelling
class _Expr(ast.NodeTransformer):
    def __init__(self, single_base=None):
        # single_base: (name of the enclosing class, name of its only base class or None)
        self.class_name, self.single_base = single_base if isinstance(single_base, tuple) else (None, single_base)

    def visit_Name(self, node):
        # a module-level alias for a tuple of builtin types (unicode_or_bytes = (str, bytes)) is its value
        v = _TYPE_ALIASES.get(node.id) if isinstance(node.ctx, ast.Load) else None
        return copy.deepcopy(v) if v is not None else node

    def visit_Call(self, node):
        self.generic_visit(node)
        f = node.func
        # Base.__init__(self, ...) -> super().__init__(...)   inside a class whose only base is Base
        if self.single_base and isinstance(f, ast.Attribute) and isinstance(f.value, ast.Name) and f.value.id == self.single_base and node.args \
                and isinstance(node.args[0], ast.Name) and node.args[0].id == "self":
            return ast.Call(func=ast.Attribute(value=ast.Call(func=ast.Name(id="super", ctx=ast.Load()), args=[], keywords=[]), attr=f.attr, ctx=ast.Load()),
                            args=node.args[1:], keywords=node.keywords)
        if isinstance(f, ast.Name):
            # dict(a=1, b=2) -> {'a': 1, 'b': 2}
            if f.id == "dict" and not node.args and node.keywords and all(k.arg for k in node.keywords):
                return ast.Dict(keys=[ast.Constant(k.arg) for k in node.keywords], values=[k.value for k in node.keywords])
            if f.id == "dict" and not node.args and not node.keywords:
                return ast.Dict(keys=[], values=[])
            if f.id == "dict" and len(node.args) == 1 and not node.keywords:
                # dict([(k, v) for ..] + [(k2, v2) for ..])  ->  {**{k: v for ..}, **{k2: v2 for ..}}   (later pairs win either way)
                parts, todo_ = [], [node.args[0]]
                while todo_:
                    x = todo_.pop(0)
                    if isinstance(x, ast.BinOp) and isinstance(x.op, ast.Add):
                        todo_ = [x.left, x.right] + todo_
                    else:
                        parts.append(x)
                conv = []
                for x in parts:
                    if isinstance(x, (ast.ListComp, ast.GeneratorExp)) and isinstance(x.elt, ast.Tuple) and len(x.elt.elts) == 2:
                        conv.append(ast.DictComp(key=x.elt.elts[0], value=x.elt.elts[1], generators=x.generators))
                    elif isinstance(x, ast.List) and x.elts and all(isinstance(e, ast.Tuple) and len(e.elts) == 2 for e in x.elts):
                        conv.append(ast.Dict(keys=[e.elts[0] for e in x.elts], values=[e.elts[1] for e in x.elts]))
                    else:
                        conv = None
                        break
                if conv and len(conv) == 1:
                    return conv[0]
                if conv:
                    return ast.Dict(keys=[None] * len(conv), values=conv)
            if f.id in ("list", "set", "dict", "tuple") and len(node.args) == 1 and not node.keywords:
                a = node.args[0]
                if isinstance(a, ast.GeneratorExp):
                    if f.id == "list":
                        return ast.ListComp(elt=a.elt, generators=a.generators)
                    if f.id == "set":
                        return ast.SetComp(elt=a.elt, generators=a.generators)
                    if f.id == "dict" and isinstance(a.elt, ast.Tuple) and len(a.elt.elts) == 2:
                        return ast.DictComp(key=a.elt.elts[0], value=a.elt.elts[1], generators=a.generators)
                if isinstance(a, ast.ListComp) and f.id == "set":
                    return ast.SetComp(elt=a.elt, generators=a.generators)
                if isinstance(a, (ast.List, ast.Tuple)) and f.id == "set" and a.elts:
                    return ast.Set(elts=a.elts)
                if isinstance(a, (ast.List, ast.Tuple)) and f.id == "tuple":
                    return ast.Tuple(elts=a.elts, ctx=ast.Load())
                if isinstance(a, (ast.List, ast.Tuple)) and f.id == "list":
                    return ast.List(elts=a.elts, ctx=ast.Load())
            # sorted([.. for ..]) / tuple / frozenset: the consumer drains its argument before doing anything else -> one spelling (a generator)
            if f.id in ("sorted", "tuple", "frozenset") and len(node.args) >= 1 and isinstance(node.args[0], ast.ListComp):
                node.args[0] = ast.GeneratorExp(elt=node.args[0].elt, generators=node.args[0].generators)
            if f.id == "range" and len(node.args) == 2 and isinstance(node.args[0], ast.Constant) and node.args[0].value == 0 and not node.keywords:
                node.args = node.args[1:]
            # super(C, self) -> super()
            if f.id == "super" and len(node.args) == 2 and isinstance(node.args[1], ast.Name) and node.args[1].id in ("self", "cls") \
                    and isinstance(node.args[0], ast.Name) and node.args[0].id == self.class_name:
                return ast.Call(func=f, args=[], keywords=[])
        if isinstance(f, ast.Attribute) and f.attr == "join" and len(node.args) == 1 and not node.keywords and isinstance(node.args[0], ast.ListComp):
            # sep.join([.. for ..]): join() materialises its argument first either way
            node.args[0] = ast.GeneratorExp(elt=node.args[0].elt, generators=node.args[0].generators)
        if isinstance(f, ast.Attribute):
            # x.get(k, None) -> x.get(k)
            if f.attr == "get" and len(node.args) == 2 and isinstance(node.args[1], ast.Constant) and node.args[1].value is None and not node.keywords:
                node.args = node.args[:1]
            # 'lit'.format(...) -> f-string
            if f.attr == "format" and isinstance(f.value, ast.Constant) and isinstance(f.value.value, str):
                js = _format_to_joined(f.value.value, node.args, node.keywords)
                if js is not None:
                    return js
            # d.update(a=1) -> d.update({'a': 1})
            if f.attr == "update" and not node.args and node.keywords and all(k.arg for k in node.keywords):
                node.args = [ast.Dict(keys=[ast.Constant(k.arg) for k in node.keywords], values=[k.value for k in node.keywords])]
                node.keywords = []
            # s.encode() -> s.encode('utf-8')
            if f.attr in ("encode", "decode") and not node.args and not node.keywords:
                node.args = [ast.Constant("utf-8")]
        return node

    def visit_BinOp(self, node):
        self.generic_visit(node)
        if isinstance(node.op, ast.Mod) and isinstance(node.left, ast.Constant) and isinstance(node.left.value, str):
            js = _percent_to_joined(node.left.value, node.right)
            if js is not None:
                return js
        # constant folding of integer arithmetic
        if isinstance(node.left, ast.Constant) and isinstance(node.right, ast.Constant) and type(node.left.value) is int and type(node.right.value) is int:
            a, b = node.left.value, node.right.value
            try:
                v = {ast.Add: lambda: a + b, ast.Sub: lambda: a - b, ast.Mult: lambda: a * b, ast.LShift: lambda: a << b if 0 <= b < 256 else None,
                     ast.RShift: lambda: a >> b if b >= 0 else None, ast.BitOr: lambda: a | b, ast.BitAnd: lambda: a & b, ast.BitXor: lambda: a ^ b,
                     ast.Pow: lambda: a ** b if 0 <= b < 64 and abs(a) < 2 ** 16 else None}.get(type(node.op), lambda: None)()
            except Exception:
                v = None
            if isinstance(v, int):
                return ast.Constant(v)
        # a + (b + c)  ->  (a + b) + c      (concatenation and integer addition are associative; this code base adds nothing else)
        if isinstance(node.op, ast.Add) and isinstance(node.right, ast.BinOp) and isinstance(node.right.op, ast.Add) and not isinstance(node.left, ast.Tuple):
            return self.visit_BinOp(ast.BinOp(left=ast.BinOp(left=node.left, op=ast.Add(), right=node.right.left), op=ast.Add(), right=node.right.right)) \
                if False else ast.BinOp(left=ast.BinOp(left=node.left, op=ast.Add(), right=node.right.left), op=ast.Add(), right=node.right.right)
        if isinstance(node.op, ast.Add) and isinstance(node.left, ast.List) and not isinstance(node.right, ast.Constant):
            right = list(node.right.elts) if isinstance(node.right, ast.List) else [ast.Starred(value=node.right, ctx=ast.Load())]
            return ast.List(elts=list(node.left.elts) + right, ctx=ast.Load())
        # (a, b) + t  ->  (a, b, *t)
        if isinstance(node.op, ast.Add) and isinstance(node.left, ast.Tuple) and not isinstance(node.right, ast.Constant):
            right = list(node.right.elts) if isinstance(node.right, ast.Tuple) else [ast.Starred(value=node.right, ctx=ast.Load())]
            return ast.Tuple(elts=list(node.left.elts) + right, ctx=ast.Load())
        return node

    def visit_Slice(self, node):
        self.generic_visit(node)
        if isinstance(node.lower, ast.Constant) and node.lower.value == 0 and type(node.lower.value) is int:
            node.lower = None
        return node

    def visit_JoinedStr(self, node):
        self.generic_visit(node)
        return _norm_joined(node)

    def visit_UnaryOp(self, node):
        self.generic_visit(node)
        if isinstance(node.op, ast.Not):
            return _negate(node.operand, wrap=node)
        if isinstance(node.op, ast.USub) and isinstance(node.operand, ast.Constant) and type(node.operand.value) in (int, float):
            return ast.Constant(-node.operand.value)
        return node

    def visit_Compare(self, node):
        self.generic_visit(node)
        if len(node.ops) == 1 and isinstance(node.left, ast.Constant) and isinstance(node.comparators[0], ast.Constant) \
                and isinstance(node.ops[0], (ast.Is, ast.IsNot, ast.Eq, ast.NotEq)):
            return _ConstFold().visit_Compare(node)
        # x in [a, b] -> x in (a, b)
        for i, (op, c) in enumerate(zip(node.ops, node.comparators)):
            if isinstance(op, (ast.In, ast.NotIn)) and isinstance(c, ast.List):
                node.comparators[i] = ast.Tuple(elts=c.elts, ctx=ast.Load())
        # a < b <= c  ->  a < b and b <= c   (only when the middle operands are plain names / constants: evaluated once either way)
        if len(node.ops) > 1 and all(isinstance(c, (ast.Name, ast.Constant)) for c in node.comparators[:-1]):
            parts, left = [], node.left
            for op, c in zip(node.ops, node.comparators):
                parts.append(ast.Compare(left=left, ops=[op], comparators=[c]))
                left = c
            return ast.BoolOp(op=ast.And(), values=parts)
        return node

    def visit_For(self, node):
        self.generic_visit(node)
        if isinstance(node.iter, ast.List):
            node.iter = ast.Tuple(elts=node.iter.elts, ctx=ast.Load())
        return node

    def visit_comprehension(self, node):
        self.generic_visit(node)
        if isinstance(node.iter, ast.List):
            node.iter = ast.Tuple(elts=node.iter.elts, ctx=ast.Load())
        return node

    def visit_IfExp(self, node):
        self.generic_visit(node)
        if isinstance(node.test, ast.Constant):
            return node.body if node.test.value else node.orelse
        if isinstance(node.test, ast.UnaryOp) and isinstance(node.test.op, ast.Not):
            node = ast.IfExp(test=node.test.operand, body=node.orelse, orelse=node.body)
        elif not _canonical_polarity(node.test):
            node = ast.IfExp(test=_neg_test(node.test), body=node.orelse, orelse=node.body)
        # x if x else d  ->  x or d ;   d if x else x  ->  x and d        (x evaluated once either way when it is pure)
        if _simple_pure(node.test) and _dump(node.test) == _dump(node.body):
            return self.visit_BoolOp(ast.BoolOp(op=ast.Or(), values=[node.test, node.orelse]), descend=False)
        if _simple_pure(node.test) and _dump(node.test) == _dump(node.orelse):
            return self.visit_BoolOp(ast.BoolOp(op=ast.And(), values=[node.test, node.body]), descend=False)
        return node

    def visit_BoolOp(self, node, descend=True):
        if descend:
            self.generic_visit(node)
        vals = []
        for v in node.values:
            if isinstance(v, ast.BoolOp) and type(v.op) is type(node.op):
                vals.extend(v.values)       # (a or b) or c == a or b or c
            else:
                vals.append(v)
        node.values = vals
        return node


NEG = {ast.Eq: ast.NotEq, ast.NotEq: ast.Eq, ast.In: ast.NotIn, ast.NotIn: ast.In, ast.Is: ast.IsNot, ast.IsNot: ast.Is}
NEG_ORD = {ast.Lt: ast.GtE, ast.GtE: ast.Lt, ast.Gt: ast.LtE, ast.LtE: ast.Gt}


def _intlike(e):
    """syntactic evidence that the value is an int (so < and >= are complements): an int literal, len(...), int(...), ord(...)"""
    if isinstance(e, ast.Constant) and type(e.value) is int:
        return True
    if isinstance(e, ast.Call) and isinstance(e.func, ast.Name) and e.func.id in ("len", "int", "ord"):
        return True
    if isinstance(e, ast.BinOp) and isinstance(e.op, (ast.Add, ast.Sub, ast.Mult, ast.FloorDiv, ast.Mod, ast.LShift, ast.RShift, ast.BitAnd, ast.BitOr)):
        return _intlike(e.left) or _intlike(e.right)
    return False


def _negate(e, wrap=None, test=False):
    """normal form of `not e`; with test=True only the truth value matters (`not not x` is x)"""
    if isinstance(e, ast.UnaryOp) and isinstance(e.op, ast.Not):
        if test or isinstance(e.operand, (ast.Compare, ast.BoolOp)) or (isinstance(e.operand, ast.UnaryOp) and isinstance(e.operand.op, ast.Not)):
            return e.operand
    if isinstance(e, ast.Compare) and len(e.ops) == 1 and type(e.ops[0]) in NEG:
        return ast.Compare(left=e.left, ops=[NEG[type(e.ops[0])]()], comparators=e.comparators)
    if isinstance(e, ast.Compare) and len(e.ops) == 1 and type(e.ops[0]) in NEG_ORD and (_intlike(e.left) or _intlike(e.comparators[0])):
        return ast.Compare(left=e.left, ops=[NEG_ORD[type(e.ops[0])]()], comparators=e.comparators)
    if isinstance(e, ast.BoolOp):
        # De Morgan keeps the evaluation order and the short circuit
        return ast.BoolOp(op=ast.Or() if isinstance(e.op, ast.And) else ast.And(), values=[_negate(v, test=test) for v in e.values])
    if isinstance(e, ast.Call) and isinstance(e.func, ast.Name) and e.func.id in ("any", "all") and len(e.args) == 1 and not e.keywords \
            and isinstance(e.args[0], (ast.GeneratorExp, ast.ListComp)):
        # not any(p for ..) == all(not p for ..)  (same iteration, same short circuit)
        g = e.args[0]
        return ast.Call(func=ast.Name(id="all" if e.func.id == "any" else "any", ctx=ast.Load()),
                        args=[ast.GeneratorExp(elt=_negate(g.elt, test=True), generators=g.generators)], keywords=[])
    return wrap if wrap is not None else ast.UnaryOp(op=ast.Not(), operand=e)


def _fv(value, conv=-1, spec=None):
    return ast.FormattedValue(value=value, conversion=conv, format_spec=spec)


def _spec(text):
    return ast.JoinedStr(values=[ast.Constant(text)]) if text else None


def _percent_to_joined(fmt, right):
    args = list(right.elts) if isinstance(right, ast.Tuple) else [right]
    if isinstance(right, ast.Dict):
        return None
    out, i, n, lit = [], 0, len(fmt), ""
    ai = 0
    while i < n:
        c = fmt[i]
        if c != "%":
            lit += c
            i += 1
            continue
        if i + 1 < n and fmt[i + 1] == "%":
            lit += "%"
            i += 2
            continue
        j = i + 1
        flags = ""
        while j < n and fmt[j] in "-+ #0":
            flags += fmt[j]
            j += 1
        width = ""
        star = None
        if j < n and fmt[j] == "*":
            if ai >= len(args):
                return None
            star = args[ai]
            ai += 1
            j += 1
        else:
            while j < n and fmt[j].isdigit():
                width += fmt[j]
                j += 1
        prec = ""
        if j < n and fmt[j] == ".":
            prec = "."
            j += 1
            while j < n and fmt[j].isdigit():
                prec += fmt[j]
                j += 1
        if j >= n or fmt[j] not in "sdrxXfi" or ai >= len(args) or (flags and flags not in ("0",)):
            return None
        ty = fmt[j]
        val = args[ai]
        ai += 1
        if lit:
            out.append(ast.Constant(lit))
            lit = ""
        if ty == "s" and not (flags or width or prec or star):
            out.append(_fv(val))
        elif ty == "r" and not (flags or width or prec or star):
            out.append(_fv(val, 114))
        elif ty in "dxXfi" or ty == "s":
            t = "d" if ty == "i" else ty
            if star is not None:
                out.append(_fv(val, -1, ast.JoinedStr(values=[ast.Constant(flags)] * bool(flags) + [_fv(star)] + [ast.Constant(prec + t)])))
            else:
                out.append(_fv(val, -1, _spec(flags + width + prec + t)))
        else:
            return None
        i = j + 1
    if ai != len(args):
        return None
    if lit:
        out.append(ast.Constant(lit))
    return _norm_joined(ast.JoinedStr(values=out))


def _format_to_joined(fmt, args, keywords):
    if any(k.arg is None for k in keywords):
        return None
    kw = {k.arg: k.value for k in keywords}
    out, auto = [], 0
    try:
        parsed = list(string.Formatter().parse(fmt))
    except ValueError:
        return None
    for lit, field, spec, conv in parsed:
        if lit:
            out.append(ast.Constant(lit))
        if field is None:
            continue
        if field == "":
            idx = auto
            auto += 1
            if idx >= len(args):
                return None
            val = args[idx]
        elif field.isdigit():
            if int(field) >= len(args):
                return None
            val = args[int(field)]
        elif field.isidentifier() and field in kw:
            val = kw[field]
        else:
            return None
        if spec and ("{" in spec):
            return None
        out.append(_fv(copy.deepcopy(val), ord(conv) if conv else -1, _spec(spec)))
    return _norm_joined(ast.JoinedStr(values=out))


def _norm_joined(js):
    vals = []
    for v in js.values:
        if isinstance(v, ast.Constant) and isinstance(v.value, str):
            if not v.value:
                continue
            if vals and isinstance(vals[-1], ast.Constant):
                vals[-1] = ast.Constant(vals[-1].value + v.value)
            else:
                vals.append(ast.Constant(v.value))
        else:
            if isinstance(v, ast.FormattedValue) and isinstance(v.value, ast.Constant) and isinstance(v.value.value, str) and v.format_spec is None and v.conversion in (-1, 115):
                if vals and isinstance(vals[-1], ast.Constant):
                    vals[-1] = ast.Constant(vals[-1].value + v.value.value)
                else:
                    vals.append(ast.Constant(v.value.value))
                continue
            if isinstance(v, ast.FormattedValue):
                # {x!s} == {x} for the str/int/bytes-free uses this code base has: conversion 's' without a spec is dropped
                if v.conversion == 115 and v.format_spec is None:
                    v = _fv(v.value, -1, None)
                if isinstance(v.format_spec, ast.JoinedStr):
                    v = _fv(v.value, v.conversion, _norm_joined(v.format_spec))
                    if isinstance(v.format_spec, ast.Constant):
                        v = _fv(v.value, v.conversion, ast.JoinedStr(values=[v.format_spec]) if v.format_spec.value else None)
            vals.append(v)
    if not vals:
        return ast.Constant("")
    if len(vals) == 1 and isinstance(vals[0], ast.Constant):
        return vals[0]
    return ast.JoinedStr(values=vals)


# ----------------------------------------------------------------------------------------------------- statement spelling
def _neg_test(t):
    """negation of a condition (only its truth value matters): `not x` -> x"""
    return _negate(t, test=True)


class _TestBool(ast.NodeTransformer):
    pass


def _strip_bool(t):
    """in a condition only the truth value matters: bool(x) is x (top level and inside and/or/not)"""
    if isinstance(t, ast.Call) and isinstance(t.func, ast.Name) and t.func.id == "bool" and len(t.args) == 1 and not t.keywords:
        return _strip_bool(t.args[0])
    if isinstance(t, ast.BoolOp):
        return ast.BoolOp(op=t.op, values=[_strip_bool(v) for v in t.values])
    if isinstance(t, ast.UnaryOp) and isinstance(t.op, ast.Not):
        return ast.UnaryOp(op=t.op, operand=_strip_bool(t.operand))
    return t


def _neg_count(t):
    if isinstance(t, ast.UnaryOp) and isinstance(t.op, ast.Not):
        return 1 + _neg_count(t.operand)
    if isinstance(t, ast.Compare):
        return sum(1 for o in t.ops if isinstance(o, (ast.NotEq, ast.NotIn, ast.IsNot, ast.GtE, ast.LtE)))
    if isinstance(t, ast.BoolOp):
        return sum(_neg_count(v) for v in t.values)
    return 0


def _canonical_polarity(t):
    """True when `t` (rather than its negation) is the canonical way to write the test: fewer negations, ties broken by the dump text"""
    n = _neg_test(copy.deepcopy(t))
    a, b = (_neg_count(t), _dump(t)), (_neg_count(n), _dump(n))
    return a <= b


def _norm_block(stmts, fn_locals):
    """normalise one statement list (children first); returns the new list"""
    out = []
    for st in stmts:
        st = _norm_stmt(st, fn_locals)
        if st is None:
            continue
        out.extend(st if isinstance(st, list) else [st])
    # nothing runs after a statement that cannot fall through
    for i, st in enumerate(out):
        if _terminates([st]):
            out = out[:i + 1]
            break
    # else-flattening and one orientation for two-way exits
    guard = 0
    i = 0
    while i < len(out) and guard < 500:
        s = out[i]
        rest = out[i + 1:]
        if isinstance(s, ast.If):
            if s.orelse and _terminates(s.body):
                out[i:] = [ast.If(test=s.test, body=s.body, orelse=[])] + s.orelse + rest
                guard += 1
                continue
            if s.orelse and _terminates(s.orelse):
                out[i:] = [ast.If(test=_neg_test(s.test), body=s.orelse, orelse=[])] + s.body + rest
                guard += 1
                continue
            if not s.orelse and _terminates(s.body) and rest and _terminates(rest) and not _canonical_polarity(s.test):
                # if c: T1 ; T2   ==   if not c: T2 ; T1      (both halves leave the block): one orientation
                out[i:] = [ast.If(test=_neg_test(s.test), body=rest, orelse=[])] + s.body
                guard += 1
                continue
        i += 1
    out = _implied_truth(out)
    out = _tail_merge(out)
    out = _try_hoist(out)
    out = _result_var(out)
    out = _break_to_tail(out)
    out = _next_index_temps(out, fn_locals)
    out = _enumerate_start(out, fn_locals)
    out = _count_loops(out, fn_locals)
    out = _countdown_loops(out, fn_locals)
    out = _loops_to_builtins(out)
    out = _inline_temps(out, fn_locals)
    out = _return_ifexp(out)
    return out


class _KnownTruth(ast.NodeTransformer):
    """inside a region where the local `name` is known to be truthy / falsy: `not name` and `bool(name)` are constants"""
    def __init__(self, name, truthy):
        self.name, self.truthy = name, truthy

    def visit_UnaryOp(self, node):
        self.generic_visit(node)
        if isinstance(node.op, ast.Not) and isinstance(node.operand, ast.Name) and node.operand.id == self.name:
            return ast.Constant(not self.truthy)
        return node

    def visit_Call(self, node):
        self.generic_visit(node)
        if isinstance(node.func, ast.Name) and node.func.id == "bool" and len(node.args) == 1 and isinstance(node.args[0], ast.Name) and node.args[0].id == self.name and not node.keywords:
            return ast.Constant(self.truthy)
        return node

    def visit_FunctionDef(self, node):
        return node
    visit_Lambda = visit_FunctionDef


def _implied_truth(stmts):
    """if x: <leaves> ; REST      -- in REST the local x is falsy (until it is assigned again);   if x: BODY -- in BODY it is truthy"""
    out = list(stmts)
    for i, s in enumerate(out):
        if not isinstance(s, ast.If):
            continue
        t = s.test
        neg = False
        if isinstance(t, ast.UnaryOp) and isinstance(t.op, ast.Not):
            t, neg = t.operand, True
        if not isinstance(t, ast.Name):
            continue
        name = t.id

        def until_rebound(block, truthy):
            res = []
            live = True
            for st in block:
                if any(isinstance(n, ast.Name) and n.id == name and isinstance(n.ctx, (ast.Store, ast.Del)) for n in ast.walk(st)):
                    live = False        # the statement that re-binds the name (possibly in a loop) is left alone, and everything after it
                if live:
                    st = _KnownTruth(name, truthy).visit(st)
                res.append(st)
            return res
        s.body = until_rebound(s.body, not neg)
        if s.orelse:
            s.orelse = until_rebound(s.orelse, neg)
        elif _terminates(s.body):
            out[i + 1:] = until_rebound(out[i + 1:], neg)
    return out


def _tail_merge(stmts):
    """a block that ends in the terminator T:   if c: S ; T   Y... ; T      ->      if c: S else: Y...   ; T
    (S or Y may be empty; applied from the first such `if` on, recursively for the rest)"""
    if len(stmts) < 2 or not isinstance(stmts[-1], (ast.Return, ast.Raise)):
        return stmts
    T = stmts[-1]
    for i, s in enumerate(stmts[:-1]):
        if isinstance(s, ast.If) and not s.orelse and s.body and type(s.body[-1]) is type(T) and _dump(s.body[-1]) == _dump(T):
            rest = _tail_merge(stmts[i + 1:])       # ends with T
            body, orelse = s.body[:-1], rest[:-1]
            if not body and not orelse:
                new = [ast.Expr(value=s.test)] if not _simple_pure(s.test) else []
            elif not body:
                new = [ast.If(test=_neg_test(s.test), body=orelse, orelse=[])]
            else:
                new = [ast.If(test=s.test, body=body, orelse=orelse)]
            return stmts[:i] + new + [T]
    return stmts


def _return_ifexp(stmts):
    """return A if c else B   ->   if c: return A ; return B ;     return A and B  ->  if A: return B ; return A   (A pure)"""
    out = []
    for st in stmts:
        if isinstance(st, ast.Return) and isinstance(st.value, ast.BoolOp) and len(st.value.values) == 2 and _simple_pure(st.value.values[0]) \
                and not isinstance(st.value.values[0], ast.Constant):
            a, b = st.value.values
            if isinstance(st.value.op, ast.And):
                out.append(ast.If(test=a, body=_return_ifexp([ast.Return(value=b)]), orelse=[]))
                out.append(ast.Return(value=copy.deepcopy(a)))
            else:
                out.append(ast.If(test=a, body=[ast.Return(value=copy.deepcopy(a))], orelse=[]))
                out.extend(_return_ifexp([ast.Return(value=b)]))
            continue
        if isinstance(st, ast.Return) and isinstance(st.value, ast.IfExp):
            e = st.value
            out.append(ast.If(test=e.test, body=_return_ifexp([ast.Return(value=e.body)]), orelse=[]))
            out.extend(_return_ifexp([ast.Return(value=e.orelse)]))
        else:
            out.append(st)
    return out


def _try_hoist(stmts):
    """try: X ; return <pure> except E: <leaves>     ->   try: X except E: <leaves> ; return <pure>      (the try is the last statement)"""
    if not stmts or not isinstance(stmts[-1], ast.Try):
        return stmts
    t = stmts[-1]
    if t.orelse or t.finalbody or len(t.body) < 2 or not isinstance(t.body[-1], ast.Return) or not all(_terminates(h.body) for h in t.handlers):
        return stmts
    v = t.body[-1].value
    if v is not None and not (isinstance(v, ast.Constant) or isinstance(v, ast.Name)):
        return stmts
    return stmts[:-1] + [ast.Try(body=t.body[:-1], handlers=t.handlers, orelse=[], finalbody=[]), t.body[-1]]


def _strip_tail_continue(body):
    """a `continue` in tail position of a loop body does nothing; `if c: continue` followed by the rest of the body is `if not c: <rest>`"""
    if not body:
        return body
    for i, st in enumerate(body[:-1]):
        if isinstance(st, ast.If) and not st.orelse and len(st.body) == 1 and isinstance(st.body[0], ast.Continue):
            rest = _strip_tail_continue(body[i + 1:])
            if not rest:
                return body[:i] + ([ast.Expr(value=st.test)] if not _simple_pure(st.test) else [])
            return body[:i] + [ast.If(test=_neg_test(st.test), body=rest, orelse=[])]
    last = body[-1]
    if isinstance(last, ast.Continue):
        return _strip_tail_continue(body[:-1])
    if isinstance(last, ast.If):
        b, o = _strip_tail_continue(last.body), _strip_tail_continue(last.orelse)
        if not b and not o:
            return body[:-1] + ([ast.Expr(value=last.test)] if not _simple_pure(last.test) else [])
        if not b:
            return body[:-1] + [ast.If(test=_neg_test(last.test), body=o, orelse=[])]
        return body[:-1] + [ast.If(test=last.test, body=b, orelse=o)]
    if isinstance(last, ast.Try) and not last.finalbody:
        hs = [ast.ExceptHandler(type=h.type, name=h.name, body=_strip_tail_continue(h.body) or [ast.Pass()]) for h in last.handlers]
        tb = last.body if last.orelse else (_strip_tail_continue(last.body) or [ast.Pass()])
        return body[:-1] + [ast.Try(body=tb, handlers=hs, orelse=_strip_tail_continue(last.orelse), finalbody=[])]
    return body


def _renorm(stmts):
    return stmts


def _leading_not(t):
    if isinstance(t, ast.UnaryOp) and isinstance(t.op, ast.Not):
        return True
    if isinstance(t, ast.Compare) and len(t.ops) == 1 and isinstance(t.ops[0], (ast.NotEq, ast.NotIn, ast.IsNot)):
        return True
    if isinstance(t, ast.BoolOp):
        return all(_leading_not(v) for v in t.values)
    return False


def _norm_stmt(st, fn_locals):
    if isinstance(st, ast.Pass):
        return None
    if _is_docstring(st):
        return None
    if isinstance(st, ast.Raise) and st.exc is not None:
        for n in ast.walk(st.exc):
            if isinstance(n, ast.FormattedValue) and isinstance(n.format_spec, ast.JoinedStr) and len(n.format_spec.values) == 1 \
                    and isinstance(n.format_spec.values[0], ast.Constant) and n.format_spec.values[0].value == "d":
                n.format_spec = None
            elif isinstance(n, ast.FormattedValue) and isinstance(n.format_spec, ast.Constant) and n.format_spec.value == "d":
                n.format_spec = None
    if isinstance(st, ast.Raise) and isinstance(st.exc, ast.Name) and st.exc.id in _class_names():
        # raising a class instantiates it without arguments
        return ast.Raise(exc=ast.Call(func=st.exc, args=[], keywords=[]), cause=st.cause)
    if isinstance(st, ast.Expr) and isinstance(st.value, ast.Call) and isinstance(st.value.func, ast.Attribute) and isinstance(st.value.func.value, ast.Name) \
            and st.value.func.value.id in LOG_RECEIVERS:
        return None
    if isinstance(st, ast.AnnAssign):
        if st.value is None:
            return None if fn_locals is not None else st
        if fn_locals is not None:
            st = ast.Assign(targets=[st.target], value=st.value)
    if isinstance(st, ast.Assign):
        # a, b = x, y  ->  a = x ; b = y   when no target is read by a later value
        if len(st.targets) == 1 and isinstance(st.targets[0], ast.Tuple) and isinstance(st.value, ast.Tuple) and len(st.targets[0].elts) == len(st.value.elts) \
                and all(isinstance(t, ast.Name) for t in st.targets[0].elts):
            tg = [t.id for t in st.targets[0].elts]
            if all(not (_names_loaded(v) & set(tg[:i])) for i, v in enumerate(st.value.elts)) and all(_simple_pure(v) for v in st.value.elts):
                return [ast.Assign(targets=[t], value=v) for t, v in zip(st.targets[0].elts, st.value.elts)]
        # x = x + y  ->  x += y
        if len(st.targets) == 1 and isinstance(st.targets[0], ast.Name) and isinstance(st.value, ast.BinOp) and isinstance(st.value.left, ast.Name) \
                and st.value.left.id == st.targets[0].id and isinstance(st.value.op, (ast.Add, ast.Sub, ast.Mult, ast.BitOr, ast.BitAnd, ast.BitXor, ast.LShift, ast.RShift, ast.FloorDiv)):
            return ast.AugAssign(target=ast.Name(id=st.targets[0].id, ctx=ast.Store()), op=st.value.op, value=st.value.right)
        # a = b = v   with a simple v  ->  two assignments
        return st
    if isinstance(st, ast.If):
        body = _norm_block(st.body, fn_locals)
        orelse = _norm_block(st.orelse, fn_locals)
        test = _strip_bool(st.test)
        if isinstance(test, ast.Constant):
            return (body if test.value else orelse) or None
        if not body and not orelse:
            return ast.Expr(value=test) if not _simple_pure(test) else None
        m = _merge_branches(test, body, orelse)
        if m is not None:
            return m
        # if a: (if b: S)   ->   if a and b: S
        if not orelse and len(body) == 1 and isinstance(body[0], ast.If) and not body[0].orelse:
            return ast.If(test=_Expr().visit_BoolOp(ast.BoolOp(op=ast.And(), values=[test, body[0].test]), descend=False), body=body[0].body, orelse=[])
        if not body:
            test, body, orelse = _neg_test(test), orelse, []
        elif orelse and not _terminates(body) and not _terminates(orelse) and not _canonical_polarity(test):
            test, body, orelse = _neg_test(test), orelse, body
        return ast.If(test=test, body=body, orelse=orelse)
    if isinstance(st, (ast.For, ast.While)):
        body = _strip_tail_continue(_norm_block(st.body, fn_locals))
        if not body:
            body = [ast.Pass()]
        orelse = _norm_block(st.orelse, fn_locals)
        if isinstance(st, ast.For):
            return ast.For(target=st.target, iter=st.iter, body=body, orelse=orelse)
        return ast.While(test=st.test, body=body, orelse=orelse)
    if isinstance(st, ast.With):
        return ast.With(items=st.items, body=_norm_block(st.body, fn_locals) or [ast.Pass()])
    if isinstance(st, ast.Try):
        hs = [ast.ExceptHandler(type=h.type, name=h.name, body=_norm_block(h.body, fn_locals) or [ast.Pass()]) for h in st.handlers]
        return ast.Try(body=_norm_block(st.body, fn_locals) or [ast.Pass()], handlers=hs, orelse=_norm_block(st.orelse, fn_locals), finalbody=_norm_block(st.finalbody, fn_locals))
    return st


def _single_assign(block):
    if len(block) == 1 and isinstance(block[0], ast.Assign) and len(block[0].targets) == 1 and isinstance(block[0].targets[0], ast.Name):
        return block[0].targets[0].id, block[0].value
    if len(block) == 1 and isinstance(block[0], ast.AugAssign) and isinstance(block[0].target, ast.Name):
        t = block[0].target.id
        return t, ast.BinOp(left=ast.Name(id=t, ctx=ast.Load()), op=block[0].op, right=block[0].value)
    return None, None


def _merge_branches(test, body, orelse):
    """if c: x = A else: x = B   ->  x = A if c else B ;   if c: f(.., A, ..) else: f(.., B, ..)  ->  f(.., A if c else B, ..)
       (an `if c: x = A` without else, for a name that is certainly bound, is handled by _cond_assign at block level)"""
    if not orelse:
        return None
    tb, vb = _single_assign(body)
    to, vo = _single_assign(orelse)
    if tb is not None and tb == to:
        return ast.Assign(targets=[ast.Name(id=tb, ctx=ast.Store())], value=ast.IfExp(test=test, body=vb, orelse=vo))
    if len(body) == 1 and len(orelse) == 1 and type(body[0]) is type(orelse[0]) and isinstance(body[0], (ast.Expr, ast.Return)) \
            and isinstance(body[0].value, ast.Call) and isinstance(orelse[0].value, ast.Call):
        a, b = body[0].value, orelse[0].value
        if _dump(a.func) == _dump(b.func) and len(a.args) == len(b.args) and not a.keywords and not b.keywords and _simple_pure(a.func):
            diff = [i for i, (x, y) in enumerate(zip(a.args, b.args)) if _dump(x) != _dump(y)]
            if len(diff) == 1 and all(_simple_pure(x) for i, x in enumerate(a.args) if i < diff[0]):
                args = list(a.args)
                args[diff[0]] = ast.IfExp(test=test, body=a.args[diff[0]], orelse=b.args[diff[0]])
                call = ast.Call(func=a.func, args=args, keywords=[])
                return ast.Expr(value=call) if isinstance(body[0], ast.Expr) else ast.Return(value=call)
    return None


def _cond_assign(stmts, bound):
    """if c: x = A   (no else; x certainly bound before)   ->   x = A if c else x        (all blocks; `bound` = names bound on every path here)"""
    out = []
    bound = set(bound)
    for st in stmts:
        if isinstance(st, ast.If) and not st.orelse:
            t, v = _single_assign(st.body)
            if t is not None and t in bound:
                st = ast.Assign(targets=[ast.Name(id=t, ctx=ast.Store())], value=ast.IfExp(test=st.test, body=v, orelse=ast.Name(id=t, ctx=ast.Load())))
        if isinstance(st, ast.If):
            st = ast.If(test=st.test, body=_cond_assign(st.body, bound), orelse=_cond_assign(st.orelse, bound))
        elif isinstance(st, (ast.For, ast.While)):
            st = copy.copy(st)
            st.body = _cond_assign(st.body, bound)
        elif isinstance(st, ast.With):
            st = copy.copy(st)
            st.body = _cond_assign(st.body, bound)
        if isinstance(st, ast.Assign) and len(st.targets) == 1 and isinstance(st.targets[0], ast.Name):
            bound.add(st.targets[0].id)
        out.append(st)
    return out


def _early_same_exit(stmts):
    """if c: T ; S... ; T      ->      if not c: S... ; T          (T the same terminator, the `if` body is exactly T)"""
    if len(stmts) < 3 or not isinstance(stmts[-1], (ast.Return, ast.Raise)):
        return stmts
    T = stmts[-1]
    for i, s in enumerate(stmts[:-2]):
        if isinstance(s, ast.If) and not s.orelse and len(s.body) == 1 and type(s.body[0]) is type(T) and _dump(s.body[0]) == _dump(T):
            inner = _early_same_exit(stmts[i + 1:-1] + [T])
            return stmts[:i] + [ast.If(test=_neg_test(s.test), body=inner[:-1], orelse=[]), T]
    return stmts


def _leaves(iff):
    """the statement lists of an if/else tree that can fall through (every `if` on the way has an else); [] if some path has no else"""
    out = []
    for branch in (iff.body, iff.orelse):
        if _terminates(branch):
            continue
        if not branch:
            return []
        last = branch[-1]
        if isinstance(last, ast.If):
            if not last.orelse:
                return []
            sub = _leaves(last)
            if not sub and not (_terminates(last.body) and _terminates(last.orelse)):
                return []
            out.extend(sub)
        else:
            out.append(branch)
    return out


def _result_var(stmts):
    """<if-chain whose branch ends in `v = A`> ; return v / raise v    ->   the branch ends in `return A` / `raise A`  (tail duplication)"""
    out = list(stmts)
    for i in range(len(out) - 1):
        s, nxt = out[i], out[i + 1]
        if not isinstance(s, ast.If) or not isinstance(nxt, (ast.Return, ast.Raise)):
            continue
        val = nxt.value if isinstance(nxt, ast.Return) else (nxt.exc if nxt.cause is None else None)
        if not isinstance(val, ast.Name):
            # return E(v...) after an if/else whose every falling-through leaf ends in `v = ...` with v read by E: sink the return
            if isinstance(nxt, ast.Return) and val is not None and s.orelse:
                names = _names_loaded(val)
                leaves = _leaves(s)
                if leaves and all(l and isinstance(l[-1], ast.Assign) and len(l[-1].targets) == 1 and isinstance(l[-1].targets[0], ast.Name) and l[-1].targets[0].id in names for l in leaves):
                    for l in leaves:
                        l.append(copy.deepcopy(nxt))
                    del out[i + 1]
                    return out
            continue
        v = val.id

        def mk(e):
            return ast.Return(value=e) if isinstance(nxt, ast.Return) else ast.Raise(exc=e, cause=None)

        def push(block):
            """returns (new block, changed)"""
            if not block:
                return block, False
            last = block[-1]
            if isinstance(last, ast.Assign) and len(last.targets) == 1 and isinstance(last.targets[0], ast.Name) and last.targets[0].id == v:
                return block[:-1] + [mk(last.value)], True
            if isinstance(last, ast.If):
                b, cb = push(last.body)
                o, co = push(last.orelse)
                if cb or co:
                    return block[:-1] + [ast.If(test=last.test, body=b, orelse=o)], True
            return block, False
        new, changed = push([s])
        if changed:
            out[i] = new[0]
            return _norm_block(out, {})
    return out


def _count_loops(stmts, later_reads):
    """i = A ; [pure assignments that do not touch i] ; while i < B: BODY ; i += S     ->     ... ; for i in range(A, B, S): BODY
    (S a positive int literal, A and B pure and not written in BODY, i not written in BODY and not read after the loop, no `continue` that
    would skip the increment; B is taken to be an int as in every such loop of this code base)"""
    out = list(stmts)
    k = 0
    while k < len(out):
        w = out[k]
        if isinstance(w, ast.While) and not w.orelse and isinstance(w.test, ast.Compare) and len(w.test.ops) == 1 and isinstance(w.test.ops[0], ast.Lt) \
                and isinstance(w.test.left, ast.Name) and w.body and isinstance(w.body[-1], ast.AugAssign) and isinstance(w.body[-1].op, ast.Add) \
                and isinstance(w.body[-1].target, ast.Name) and w.body[-1].target.id == w.test.left.id and isinstance(w.body[-1].value, ast.Constant) \
                and type(w.body[-1].value.value) is int and w.body[-1].value.value > 0 and _simple_pure(w.test.comparators[0]):
            i = w.test.left.id
            # the initialisation: the nearest preceding statement that binds i, reached over pure assignments that neither read nor write i
            j = k - 1
            a = None
            between = []
            while j >= 0:
                st = out[j]
                if isinstance(st, ast.Assign) and len(st.targets) == 1 and isinstance(st.targets[0], ast.Name) and st.targets[0].id == i:
                    a = st
                    break
                tv = _tgt_val(st)
                if tv is None or tv[0] == i or i in tv[1] or not isinstance(st, ast.Assign):
                    break
                between.append(st)
                j -= 1
            if a is not None and _simple_pure(a.value) and i not in _names_loaded(a.value) \
                    and not ({st.targets[0].id for st in between} & _names_loaded(a.value)):
                body = w.body[:-1]
                bound = w.test.comparators[0]
                written = {n.id for st in body for n in ast.walk(st) if isinstance(n, ast.Name) and isinstance(n.ctx, (ast.Store, ast.Del))}
                has_continue = any(isinstance(n, ast.Continue) for st in body for n in ast.walk(st) if not isinstance(n, (ast.For, ast.While)))
                has_continue = has_continue or any(isinstance(n, ast.Continue) for st in body for n in ast.walk(st))
                inside = sum(1 for n in ast.walk(w) if isinstance(n, ast.Name) and n.id == i and isinstance(n.ctx, ast.Load))
                info = later_reads.get(i) if isinstance(later_reads, dict) else None
                # every read of the counter in the whole function is inside this loop (the value it is left with is never looked at)
                read_after = info is None or info[1] != inside
                if body and i not in written and not (written & (_names_loaded(bound) | _names_loaded(a.value))) and not has_continue and not read_after:
                    step = w.body[-1].value.value
                    args = [a.value, bound] + ([ast.Constant(step)] if step != 1 else [])
                    if step == 1 and isinstance(a.value, ast.Constant) and a.value.value == 0:
                        args = [bound]
                    out[k] = ast.For(target=ast.Name(id=i, ctx=ast.Store()), iter=ast.Call(func=ast.Name(id="range", ctx=ast.Load()), args=args, keywords=[]), body=body, orelse=[])
                    del out[j]
                    k = max(j - 1, 0)
                    continue
        k += 1
    return out


def _break_to_tail(stmts):
    """for ...: ... break ...  else: E     ; REST        ->        for ...: ... REST ...    ; E
    when E and REST both always leave the function (return / raise) and the loop has exactly one `break` of its own, outside any `try` /
    `with` inside the loop: REST runs exactly after that break, with the bindings of that iteration, and E exactly when the loop runs out."""
    out = list(stmts)
    for k, lp in enumerate(out):
        if not (isinstance(lp, (ast.For, ast.While)) and lp.orelse and _exits(lp.orelse)):
            continue
        rest = out[k + 1:]
        if not rest or not _exits(rest) or any(isinstance(n, (ast.FunctionDef, ast.AsyncFunctionDef, ast.ClassDef)) for st in rest for n in ast.walk(st)):
            continue
        sites = []

        def find(block, guarded):
            for idx, st in enumerate(block):
                if isinstance(st, ast.Break):
                    sites.append((block, idx, guarded))
                elif isinstance(st, ast.If):
                    find(st.body, guarded)
                    find(st.orelse, guarded)
                elif isinstance(st, (ast.Try, ast.With, ast.AsyncWith)):
                    for fld in ("body", "orelse", "finalbody"):
                        find(getattr(st, fld, []) or [], True)
                    for h in getattr(st, "handlers", []) or []:
                        find(h.body, True)
                elif isinstance(st, (ast.For, ast.While, ast.AsyncFor)):
                    find(st.orelse, guarded)      # a break in the else of an inner loop belongs to this loop
                elif isinstance(st, ast.Match):
                    for c in st.cases:
                        find(c.body, True)
        find(lp.body, False)
        if len(sites) != 1 or sites[0][2]:
            continue
        block, idx, _ = sites[0]
        block[idx:idx + 1] = [copy.deepcopy(st) for st in rest]
        new = copy.copy(lp)
        tail = lp.orelse
        new.orelse = []
        out[k:] = [new] + tail
        break
    return out


def _enumerate_start(stmts, counts):
    """for i, x in enumerate(it, S): BODY(i)      ->      for i, x in enumerate(it): BODY(i + S)
    (S an int literal, i a plain local that BODY does not write and that is not read after the loop)"""
    out = list(stmts)
    for k, f in enumerate(out):
        if not (isinstance(f, ast.For) and isinstance(f.iter, ast.Call) and isinstance(f.iter.func, ast.Name) and f.iter.func.id == "enumerate"
                and isinstance(f.target, ast.Tuple) and len(f.target.elts) == 2 and isinstance(f.target.elts[0], ast.Name)):
            continue
        start = None
        if len(f.iter.args) == 2 and not f.iter.keywords:
            start = f.iter.args[1]
        elif len(f.iter.args) == 1 and len(f.iter.keywords) == 1 and f.iter.keywords[0].arg == "start":
            start = f.iter.keywords[0].value
        if not (isinstance(start, ast.Constant) and type(start.value) is int and start.value != 0):
            continue
        i = f.target.elts[0].id
        blocks = f.body + f.orelse
        written = {n.id for st in blocks for n in ast.walk(st) if isinstance(n, ast.Name) and isinstance(n.ctx, (ast.Store, ast.Del))}
        inside = sum(1 for st in blocks for n in ast.walk(st) if isinstance(n, ast.Name) and n.id == i and isinstance(n.ctx, ast.Load))
        info = counts.get(i) if isinstance(counts, dict) else None
        nested = any(isinstance(n, (ast.FunctionDef, ast.AsyncFunctionDef, ast.Lambda)) for st in blocks for n in ast.walk(st))
        if i in written or info is None or info[1] != inside or nested or i in _names_loaded(f.iter.args[0]):
            continue
        repl = ast.BinOp(left=ast.Name(id=i, ctx=ast.Load()), op=ast.Add(), right=ast.Constant(start.value))
        out[k] = ast.For(target=f.target, iter=ast.Call(func=f.iter.func, args=[f.iter.args[0]], keywords=[]),
                         body=[_Subst({i: repl}).visit(copy.deepcopy(st)) for st in f.body],
                         orelse=[_Subst({i: repl}).visit(copy.deepcopy(st)) for st in f.orelse])
    return out


def _next_index_temps(stmts, counts):
    """while ...: t = i + K ; BODY(i, t) ; i = t      ->      while ...: BODY(i, i + K) ; i += K
    (t a local bound only here and read only inside this loop, i and t not written in BODY, K an int literal)"""
    out = list(stmts)
    for k, w in enumerate(out):
        if not (isinstance(w, ast.While) and len(w.body) >= 3):
            continue
        first, last = w.body[0], w.body[-1]
        if not (isinstance(first, ast.Assign) and len(first.targets) == 1 and isinstance(first.targets[0], ast.Name) and isinstance(first.value, ast.BinOp)
                and isinstance(first.value.op, ast.Add) and isinstance(first.value.left, ast.Name) and isinstance(first.value.right, ast.Constant)
                and type(first.value.right.value) is int and first.value.right.value > 0):
            continue
        t, i = first.targets[0].id, first.value.left.id
        if not (isinstance(last, ast.Assign) and len(last.targets) == 1 and isinstance(last.targets[0], ast.Name) and last.targets[0].id == i
                and isinstance(last.value, ast.Name) and last.value.id == t and t != i):
            continue
        body = w.body[1:-1]
        written = {n.id for st in body for n in ast.walk(st) if isinstance(n, ast.Name) and isinstance(n.ctx, (ast.Store, ast.Del))}
        info = counts.get(t) if isinstance(counts, dict) else None
        reads_in_loop = sum(1 for n in ast.walk(w) if isinstance(n, ast.Name) and n.id == t and isinstance(n.ctx, ast.Load))
        has_nested_scope = any(isinstance(n, (ast.FunctionDef, ast.AsyncFunctionDef, ast.Lambda)) for st in body for n in ast.walk(st))
        if t in written or i in written or info is None or info[0] != 1 or info[1] != reads_in_loop or has_nested_scope \
                or any(isinstance(n, ast.Name) and n.id == t for n in ast.walk(w.test)):
            continue
        new_body = [_Subst({t: first.value}).visit(copy.deepcopy(st)) for st in body]
        new_body.append(ast.AugAssign(target=ast.Name(id=i, ctx=ast.Store()), op=ast.Add(), value=copy.deepcopy(first.value.right)))
        out[k] = ast.While(test=w.test, body=new_body, orelse=w.orelse)
    return out


def _countdown_loops(stmts, counts):
    """i = N ; while i: BODY ; i -= 1      ->      for i in range(N): BODY        (N an int literal or visibly an int; i not used in BODY nor later)"""
    out = list(stmts)
    k = 0
    while k + 1 < len(out):
        a, w = out[k], out[k + 1]
        if isinstance(a, ast.Assign) and len(a.targets) == 1 and isinstance(a.targets[0], ast.Name) and isinstance(w, ast.While) and not w.orelse \
                and isinstance(w.test, ast.Name) and w.test.id == a.targets[0].id and w.body and isinstance(w.body[-1], ast.AugAssign) \
                and isinstance(w.body[-1].op, ast.Sub) and isinstance(w.body[-1].target, ast.Name) and w.body[-1].target.id == w.test.id \
                and isinstance(w.body[-1].value, ast.Constant) and w.body[-1].value.value == 1 and _intlike(a.value) and _simple_pure(a.value):
            i = w.test.id
            body = w.body[:-1]
            info = counts.get(i) if isinstance(counts, dict) else None
            used = any(isinstance(n, ast.Name) and n.id == i for st in body for n in ast.walk(st))
            has_continue = any(isinstance(n, ast.Continue) for st in body for n in ast.walk(st))
            written = {n.id for st in body for n in ast.walk(st) if isinstance(n, ast.Name) and isinstance(n.ctx, (ast.Store, ast.Del))}
            if body and not used and not has_continue and info is not None and info[1] == 1 and not (written & _names_loaded(a.value)):
                out[k:k + 2] = [ast.For(target=ast.Name(id=i, ctx=ast.Store()), iter=ast.Call(func=ast.Name(id="range", ctx=ast.Load()), args=[a.value], keywords=[]), body=body, orelse=[])]
                continue
        k += 1
    return out


def _loops_to_builtins(stmts):
    out = list(stmts)
    i = 0
    while i < len(out):
        s = out[i]
        nxt = out[i + 1] if i + 1 < len(out) else None
        # for x in it: if c: return True ; return False   ->  return any(c for x in it)     (and the all() twin)
        if isinstance(s, ast.For) and not s.orelse and len(s.body) == 1 and isinstance(s.body[0], ast.If) and not s.body[0].orelse \
                and len(s.body[0].body) == 1 and isinstance(s.body[0].body[0], ast.Return) and isinstance(s.body[0].body[0].value, ast.Constant) \
                and isinstance(nxt, ast.Return) and isinstance(nxt.value, ast.Constant) and {s.body[0].body[0].value.value, nxt.value.value} == {True, False} \
                and type(s.body[0].body[0].value.value) is bool:
            inner = s.body[0].body[0].value.value
            test = s.body[0].test
            gen = ast.GeneratorExp(elt=test if inner else _negate(test), generators=[ast.comprehension(target=s.target, iter=s.iter, ifs=[], is_async=0)])
            call = ast.Call(func=ast.Name(id="any" if inner else "all", ctx=ast.Load()), args=[gen], keywords=[])
            out[i:i + 2] = [ast.Return(value=call)]
            continue
        # for x in it: if c: raise E      ->      if any(c for x in it): raise E        (E does not mention x)
        if isinstance(s, ast.For) and not s.orelse and len(s.body) == 1 and isinstance(s.body[0], ast.If) and not s.body[0].orelse \
                and len(s.body[0].body) == 1 and isinstance(s.body[0].body[0], ast.Raise) and isinstance(s.target, ast.Name) \
                and s.target.id not in _names_loaded(s.body[0].body[0]):
            gen = ast.GeneratorExp(elt=s.body[0].test, generators=[ast.comprehension(target=s.target, iter=s.iter, ifs=[], is_async=0)])
            out[i] = ast.If(test=ast.Call(func=ast.Name(id="any", ctx=ast.Load()), args=[gen], keywords=[]), body=s.body[0].body, orelse=[])
            continue
        # v = [] ; for x in it: v.append(e)   ->  v = [e for x in it]      (also with one `if c:` around the append)
        if isinstance(s, ast.Assign) and len(s.targets) == 1 and isinstance(s.targets[0], ast.Name) and isinstance(s.value, ast.List) and not s.value.elts \
                and isinstance(nxt, ast.For) and not nxt.orelse and len(nxt.body) == 1:
            v = s.targets[0].id
            b = nxt.body[0]
            ifs = []
            if isinstance(b, ast.If) and not b.orelse and len(b.body) == 1:
                ifs, b = [b.test], b.body[0]
            if isinstance(b, ast.Expr) and isinstance(b.value, ast.Call) and isinstance(b.value.func, ast.Attribute) and b.value.func.attr == "append" \
                    and isinstance(b.value.func.value, ast.Name) and b.value.func.value.id == v and len(b.value.args) == 1 \
                    and v not in _names_loaded(b.value.args[0]) and v not in _names_loaded(nxt.iter) and not any(v in _names_loaded(t) for t in ifs):
                comp = ast.ListComp(elt=b.value.args[0], generators=[ast.comprehension(target=nxt.target, iter=nxt.iter, ifs=ifs, is_async=0)])
                out[i:i + 2] = [ast.Assign(targets=[ast.Name(id=v, ctx=ast.Store())], value=comp)]
                continue
        i += 1
    return out


def _assigned_names(node):
    out = []
    for n in ast.walk(node):
        if isinstance(n, ast.Name) and isinstance(n.ctx, (ast.Store, ast.Del)):
            out.append(n.id)
        elif isinstance(n, ast.arg):
            out.append(n.arg)
    return out


def _inline_temps(stmts, fn_locals):
    """t = E ; S(t)  ->  S(E)   when the value assigned here is read exactly once, in S, the next statement, and everything S evaluates
    before reaching t is free of side effects (or E itself is).  `fn_locals` maps a local to (stores, loads, paired) over the whole
    function; `paired` says that every store of the name is a simple assignment directly followed by a statement holding its only load."""
    if not fn_locals:
        return stmts
    counts = fn_locals
    out = list(stmts)
    # a pure temporary may also travel over pure assignments that do not touch what it reads:  t = E ; a = P ; S(t)  ->  a = P ; S(E)
    i = 0
    moved = set()
    while i + 2 < len(out):
        s = out[i]
        if id(s) not in moved and isinstance(s, ast.Assign) and len(s.targets) == 1 and isinstance(s.targets[0], ast.Name) \
                and counts.get(s.targets[0].id, (0, 0, False))[:2] == (1, 1):
            t = s.targets[0].id
            reads = _names_loaded(s.value)
            pure = _simple_pure(s.value)
            j = i + 1
            while j < len(out):
                tv = _tgt_val(out[j])
                if tv is None or tv[0] in reads or tv[0] == t or t in tv[1]:
                    break
                if not pure and not _local_only(out[j].value):
                    break       # a value with side effects only travels over assignments that cannot see them (constants and locals)
                j += 1
            if i + 1 < j < len(out) and any(isinstance(n, ast.Name) and n.id == t for h in _header_of(out[j]) for n in ast.walk(h)):
                moved.add(id(s))
                out.insert(j - 1, out.pop(i))      # move the definition next to its use; the adjacent rule below does the rest
                continue
        i += 1
    i = 0
    while i + 1 < len(out):
        s, nxt = out[i], out[i + 1]
        if isinstance(s, ast.Assign) and len(s.targets) == 1 and isinstance(s.targets[0], ast.Name):
            t = s.targets[0].id
            info = counts.get(t)
            if info is not None and (info[:2] == (1, 1) or info[2]) and not isinstance(nxt, (ast.FunctionDef, ast.ClassDef)):
                header = _header_of_pure(nxt) if _simple_pure(s.value) else _header_of(nxt)
                uses = [n for h in header for n in ast.walk(h) if isinstance(n, ast.Name) and n.id == t and isinstance(n.ctx, ast.Load)]
                body_uses = sum(1 for n in ast.walk(nxt) if isinstance(n, ast.Name) and n.id == t and isinstance(n.ctx, ast.Load))
                if len(uses) == 1 and body_uses == 1 and _inline_ok(s.value, header, uses[0], (counts.get("<nested>") or (0, 0, False, ()))[3]):
                    out[i + 1] = _Subst({t: s.value}).visit(nxt)
                    del out[i]
                    if info[:2] == (1, 1):
                        counts.pop(t, None)
                    i = max(i - 1, 0)
                    continue
        i += 1
    return out


def _local_only(e):
    """built from constants and local names only: cannot observe or cause a side effect"""
    return all(isinstance(n, (ast.Constant, ast.Name, ast.Load, ast.BinOp, ast.UnaryOp, ast.operator, ast.unaryop, ast.Tuple, ast.Compare, ast.cmpop, ast.BoolOp, ast.boolop))
               for n in ast.walk(e))


def _inline_ok(value, header, use, nested=()):
    pure = _simple_pure(value)
    for h in header:
        for n in ast.walk(h):
            if isinstance(n, (ast.Lambda, ast.ListComp, ast.SetComp, ast.DictComp, ast.GeneratorExp)) and _in(n, use):
                if isinstance(n, ast.Lambda) or not _in(n.generators[0].iter, use):
                    return False        # evaluated later / repeatedly
            if not pure and isinstance(n, ast.BoolOp) and _in(n, use) and not _in(n.values[0], use):
                return False            # conditionally evaluated
            if not pure and isinstance(n, ast.IfExp) and _in(n, use) and not _in(n.test, use):
                return False
    if pure and _local_only(value):
        return True         # constants and locals: nothing evaluated in between can change what it yields
    # a value that reads the heap (attributes, items, len()) must not move behind a call that may write there
    for h in header:
        for n in _eval_order(h):
            if n is use:
                return True
            if _in(n, use):
                continue
            if isinstance(n, (ast.Call, ast.BoolOp, ast.IfExp, ast.Lambda, ast.ListComp, ast.SetComp, ast.DictComp, ast.GeneratorExp, ast.Await)):
                if not _simple_pure(n):
                    if pure and isinstance(n, ast.Call) and not _call_may_write(n, _names_loaded(value) | {"super"}, _reads_deep(value), nested):
                        continue        # the call has no access to the objects the value reads
                    return False
    return True


def _propagate(fn):
    """whole-function copy propagation for names that are plain aliases:
       * `t = s` where s is a name that is never read again and not assigned again: t is s under another name -> rename t to s;
       * `t = <pure expression over names that are never assigned afterwards and attributes of self/cls the function never stores>`,
         t assigned once: every read of t is replaced by the expression (common-subexpression temporaries such as `salt = self.salt`)."""
    changed = True
    guard = 0
    while changed and guard < 20:
        changed = False
        guard += 1
        counts = _local_counts(fn)
        params = {a.arg for a in fn.args.posonlyargs + fn.args.args + fn.args.kwonlyargs}
        order = _source_order_nodes(fn)
        pos = {id(n): i for i, n in enumerate(order)}
        attr_stores = {ast.unparse(n) for n in ast.walk(fn) if isinstance(n, ast.Attribute) and isinstance(n.ctx, (ast.Store, ast.Del))}
        barrier_cache = {}
        for st in _all_simple_assigns(fn):
            t = st.targets[0].id
            if t not in counts or t in params:
                continue
            v = st.value
            here = pos.get(id(st.targets[0]), 0)
            free = _names_loaded(v)
            later_store = any(isinstance(n, ast.Name) and isinstance(n.ctx, (ast.Store, ast.Del)) and n.id in free and pos.get(id(n), -1) > here for n in order)
            if isinstance(v, ast.Name):
                src = v.id
                later_load = any(isinstance(n, ast.Name) and isinstance(n.ctx, ast.Load) and n.id == src and pos.get(id(n), -1) > here for n in order)
                first = not any(isinstance(n, ast.Name) and n.id == t and pos.get(id(n), -1) < here for n in order)
                at_top = not any(isinstance(lp, (ast.For, ast.While)) and any(x is st for x in ast.walk(lp)) for lp in ast.walk(fn))
                if not later_load and first and at_top and (src in counts or src in params) and src not in _captured(fn) and t not in _captured(fn):
                    # s is dead from here on and t does not exist before: t simply takes over the name
                    if not later_store:
                        _remove_stmt(fn, st)
                        for b in [fn]:
                            _RenameAll({t: src}).visit(b)
                        changed = True
                        break
            if counts[t][0] == 1 and _simple_pure(v) and not later_store and (_stable(v, attr_stores, params) or (isinstance(v, ast.Constant) and (v.value is None or isinstance(v.value, (bool, int))))) and _size(v) <= 12 and t not in _captured(fn):
                loads = [n for n in order if isinstance(n, ast.Name) and isinstance(n.ctx, ast.Load) and n.id == t]
                if not _local_only(v) and _attr_barrier(fn, st, t, barrier_cache):
                    continue        # a call in between may store the attribute: the temporary is a snapshot, not an abbreviation
                compound = not isinstance(v, (ast.Name, ast.Attribute, ast.Constant))
                # a compound value read once is an ordinary temporary (handled by _inline_temps, same rules on both sides); read several
                # times it is a common subexpression and is expanded
                if loads and all(pos[id(n)] > here for n in loads):
                    _remove_stmt(fn, st)
                    _Subst({t: v}).visit(fn)
                    changed = True
                    break


def _size(e):
    return sum(1 for _ in ast.walk(e))


def _eval_events(fn):
    """(events, loops, dead): names read / calls completed, in evaluation order (operands before the call that consumes them); for every
    loop the [first, last] event index of its body; and the index ranges of blocks that always end in return / raise (nothing after such a
    block is reached from inside it)"""
    ev, loops, dead = [], [], []

    def terminates(body):
        if not body:
            return False
        last = body[-1]
        if isinstance(last, (ast.Return, ast.Raise)):
            return True
        if isinstance(last, ast.If):
            return terminates(last.body) and terminates(last.orelse)
        return False

    def expr(n):
        if n is None:
            return
        if isinstance(n, (ast.FunctionDef, ast.AsyncFunctionDef, ast.Lambda, ast.ClassDef)):
            return
        if isinstance(n, (ast.ListComp, ast.SetComp, ast.DictComp, ast.GeneratorExp)):
            a = len(ev)
            for ch in ast.iter_child_nodes(n):
                expr(ch)
            loops.append((a, len(ev) - 1))
            return
        for ch in ast.iter_child_nodes(n):
            expr(ch)
        if isinstance(n, ast.Name) and isinstance(n.ctx, ast.Load):
            ev.append(("load", n))
        elif isinstance(n, (ast.Call, ast.Yield, ast.YieldFrom, ast.Await)):
            ev.append(("call", n))

    def stmts(body):
        for st in body:
            stmt(st)

    def stmt(st):
        if isinstance(st, (ast.FunctionDef, ast.AsyncFunctionDef, ast.ClassDef)):
            return
        if isinstance(st, ast.Assign):
            expr(st.value)
            for t in st.targets:
                expr(t)
            ev.append(("def", st))
        elif isinstance(st, (ast.For, ast.AsyncFor)):
            expr(st.iter)
            a = len(ev)
            expr(st.target)
            stmts(st.body)
            loops.append((a, len(ev) - 1))
            stmts(st.orelse)
        elif isinstance(st, ast.While):
            a = len(ev)
            expr(st.test)
            stmts(st.body)
            loops.append((a, len(ev) - 1))
            stmts(st.orelse)
        elif isinstance(st, ast.If):
            expr(st.test)
            for blk in (st.body, st.orelse):
                a = len(ev)
                stmts(blk)
                if terminates(blk) and len(ev) > a and not _try_parents:
                    dead.append((a, len(ev) - 1))
        elif isinstance(st, (ast.With, ast.AsyncWith)):
            for it in st.items:
                expr(it.context_expr)
                expr(it.optional_vars)
                ev.append(("call", it))          # __enter__ runs arbitrary code
            stmts(st.body)
            ev.append(("call", st))              # __exit__
        elif isinstance(st, ast.Try):
            # a raise inside a try body continues in its handlers: blocks in there are not dead ends
            _try_parents.append(st)
            stmts(st.body)
            _try_parents.pop()
            for h in st.handlers:
                expr(h.type)
                stmts(h.body)
            stmts(st.orelse)
            stmts(st.finalbody)
        else:
            expr(st)
    _try_parents = []
    stmts(fn.body)
    return ev, loops, dead


def _call_may_write(c, roots, deep, nested):
    """may this call run code that stores attributes of the objects named `roots`?  A method of one of them is called, one of them is
    handed over, a nested function that can see them is called, or control leaves the frame (with-blocks, yield, await).  Handing over
    the *value* of an attribute gives no access to the object that holds it, so that only matters (`deep`) when the temporary reads
    through the attribute (an item, a length, an attribute of the attribute)."""
    if not isinstance(c, ast.Call):
        return True
    if _simple_pure(c):
        return False
    if isinstance(c.func, ast.Name) and c.func.id in nested:
        return True
    root = c.func
    while isinstance(root, (ast.Attribute, ast.Subscript)):
        root = root.value
    if isinstance(root, ast.Call) or (isinstance(root, ast.Name) and root.id in roots):
        # self.m(...), self.a.m(...), super().m(...), f(...)(...) -- except a pure str/bytes/dict method of an attribute value
        if not (isinstance(c.func, ast.Attribute) and c.func.attr in PURE_METHODS and isinstance(root, ast.Name) and root is not c.func.value):
            return True
    attr_roots = {id(x.value) for x in ast.walk(c) if isinstance(x, ast.Attribute)}
    for x in list(c.args) + [k.value for k in c.keywords]:
        for n in ast.walk(x):
            if isinstance(n, ast.Name) and n.id in roots:
                if deep or id(n) not in attr_roots:
                    return True
    return False


def _reads_deep(v):
    """does the value read *through* an attribute (an item, a length, an attribute of an attribute)?"""
    return any(isinstance(x, (ast.Subscript, ast.Call)) or (isinstance(x, ast.Attribute) and isinstance(x.value, ast.Attribute)) for x in ast.walk(v))


def _touches_self(c, nested, deep):
    return _call_may_write(c, ("self", "cls", "super"), deep, nested)


def _attr_barrier(fn, st, t, cache=None):
    """`t = <value reading attributes of self/cls>`: is some read of t separated from the assignment by a call that may store those
    attributes?  (then the value at the read may differ from the value at the assignment, and t is not a mere abbreviation)"""
    if cache is None:
        cache = {}
    if "ev" not in cache:
        cache["ev"] = _eval_events(fn)
        cache["nested"] = {n.name for n in ast.walk(fn) if n is not fn and isinstance(n, (ast.FunctionDef, ast.AsyncFunctionDef))} | \
            {tt.id for a in ast.walk(fn) if isinstance(a, ast.Assign) and isinstance(a.value, ast.Lambda) for tt in a.targets if isinstance(tt, ast.Name)}
        cache["calls"] = [(k, n) for k, (kind, n) in enumerate(cache["ev"][0]) if kind == "call" and not (isinstance(n, ast.Call) and _simple_pure(n))]
    ev, loops, dead = cache["ev"]
    nested = cache["nested"]
    i = next((k for k, (kind, n) in enumerate(ev) if kind == "def" and n is st), None)
    if i is None:
        return True
    v = st.value
    deep = _reads_deep(v)
    # locals that may hold a reference obtained from self also hand it over
    roots = _names_loaded(v) | {"super"}
    esc = [k for k, n in cache["calls"] if _call_may_write(n, roots, deep, nested)]
    if deep:
        tainted = {tt.id for a in ast.walk(fn) if isinstance(a, ast.Assign) and any(isinstance(x, ast.Name) and x.id in roots for x in ast.walk(a.value))
                   for tt in a.targets for tt in ast.walk(tt) if isinstance(tt, ast.Name)}
        for k, n in cache["calls"]:
            if k not in esc and isinstance(n, ast.Call) and any(isinstance(x, ast.Name) and x.id in tainted for x in ast.walk(n)):
                esc.append(k)
    if not esc:
        return False

    def reaches(k, j):
        """does control flow from event k on to event j?  not when k lies in a block that always ends in return / raise and j lies after it"""
        return not any(a <= k <= b and j > b for a, b in dead)
    for j, (kind, n) in enumerate(ev):
        if kind == "load" and n.id == t:
            if j < i:
                return True
            if any(i < k < j and reaches(k, j) for k in esc):
                return True
            for a, b in loops:
                if a <= j <= b and not (a <= i <= b) and any(a <= k <= b for k in esc):
                    return True
    return False


def _stable(e, attr_stores, params=("self", "cls")):
    """names, constants and attribute chains rooted at self/cls that the function itself never stores; len()/pure builtins of those"""
    for n in ast.walk(e):
        if isinstance(n, ast.Attribute):
            root = n
            while isinstance(root, ast.Attribute):
                root = root.value
            if not (isinstance(root, ast.Name) and root.id in ("self", "cls") and root.id in params):
                return False
            if ast.unparse(n) in attr_stores:
                return False
        elif isinstance(n, ast.Call):
            if not (isinstance(n.func, ast.Name) and n.func.id == "len" and len(n.args) == 1 and not n.keywords):
                return False
        elif isinstance(n, ast.Subscript):
            sl = n.slice
            parts = [sl.lower, sl.upper, sl.step] if isinstance(sl, ast.Slice) else [sl]
            if not all(x is None or (isinstance(x, ast.Constant) and isinstance(x.value, int)) or (isinstance(x, ast.UnaryOp) and isinstance(x.operand, ast.Constant)) for x in parts):
                return False
        elif isinstance(n, (ast.List, ast.Dict, ast.Set, ast.ListComp, ast.SetComp, ast.DictComp, ast.GeneratorExp, ast.JoinedStr, ast.Starred)):
            return False        # a display builds a new (mutable) object on every evaluation
    return True


def _captured(fn):
    out = set()
    for n in ast.walk(fn):
        if n is not fn and isinstance(n, (ast.FunctionDef, ast.AsyncFunctionDef, ast.Lambda, ast.ClassDef)):
            out |= {x.id for x in ast.walk(n) if isinstance(x, ast.Name)}
    return out


def _all_simple_assigns(fn):
    out = []

    def go(stmts):
        for st in stmts:
            if isinstance(st, ast.Assign) and len(st.targets) == 1 and isinstance(st.targets[0], ast.Name):
                out.append(st)
            for fld in ("body", "orelse", "finalbody"):
                blk = getattr(st, fld, None)
                if isinstance(blk, list) and blk and isinstance(blk[0], ast.stmt) and not isinstance(st, (ast.FunctionDef, ast.AsyncFunctionDef, ast.ClassDef)):
                    go(blk)
            if isinstance(st, ast.Try):
                for h in st.handlers:
                    go(h.body)
    go(fn.body)
    return out


def _remove_stmt(fn, target):
    def go(stmts):
        for i, st in enumerate(stmts):
            if st is target:
                del stmts[i]
                if not stmts:
                    stmts.append(ast.Pass())
                return True
            for fld in ("body", "orelse", "finalbody"):
                blk = getattr(st, fld, None)
                if isinstance(blk, list) and blk and isinstance(blk[0], ast.stmt) and not isinstance(st, (ast.FunctionDef, ast.AsyncFunctionDef, ast.ClassDef)):
                    if go(blk):
                        return True
            if isinstance(st, ast.Try):
                for h in st.handlers:
                    if go(h.body):
                        return True
        return False
    go(fn.body)


def _source_order_nodes(fn):
    out = []
    for st in fn.body:
        out.extend(_source_order(st))
    return out


def _in(tree, node):
    return any(n is node for n in ast.walk(tree))


def _header_of(st):
    """the expressions a statement evaluates itself, once, before any nested block"""
    if isinstance(st, ast.If):
        return [st.test]
    if isinstance(st, ast.While):
        return []          # re-evaluated on every iteration
    if isinstance(st, ast.For):
        return [st.iter]
    if isinstance(st, ast.With):
        return [i.context_expr for i in st.items]
    if isinstance(st, ast.Try):
        return []
    return [st]


def _header_of_pure(st):
    """for a value without side effects the first statement of a try body / with body is as good as the statement itself"""
    if isinstance(st, ast.Try) and st.body:
        return _header_of_pure(st.body[0])
    return _header_of(st)


class _Subst(ast.NodeTransformer):
    def __init__(self, m):
        self.m = m

    def visit_Name(self, node):
        if isinstance(node.ctx, ast.Load) and node.id in self.m:
            return copy.deepcopy(self.m[node.id])
        return node


class _ReplaceNode(ast.NodeTransformer):
    def __init__(self, old, new):
        self.old, self.new = old, new

    def visit(self, node):
        if node is self.old:
            return self.new
        return super().visit(node)


class _Rename(ast.NodeTransformer):
    def __init__(self, m, deep=False):
        self.m, self.deep = m, deep

    def visit_Name(self, node):
        if node.id in self.m:
            return ast.Name(id=self.m[node.id], ctx=node.ctx)
        return node

    def visit_ExceptHandler(self, node):
        self.generic_visit(node)
        if node.name in self.m:
            node.name = self.m[node.name]
        return node

    def visit_FunctionDef(self, node):
        if self.deep:
            node.body = [self.visit(x) for x in node.body]
        return node     # otherwise nested defs keep their own names (closures): handled conservatively

    def visit_Lambda(self, node):
        return node


def _local_counts(fn, for_rename=False):
    """name -> (number of stores, number of loads) for the names bound in the function body (parameters, globals, nonlocals and names used
    by nested functions are left out: they are not candidates for inlining / renaming)"""
    params = {a.arg for a in fn.args.posonlyargs + fn.args.args + fn.args.kwonlyargs}
    if fn.args.vararg:
        params.add(fn.args.vararg.arg)
    if fn.args.kwarg:
        params.add(fn.args.kwarg.arg)
    banned = set(params)
    stores, loads = {}, {}
    for st in fn.body:
        for n in ast.walk(st):
            if isinstance(n, (ast.Global, ast.Nonlocal)):
                banned |= set(n.names)
            if isinstance(n, (ast.FunctionDef, ast.AsyncFunctionDef, ast.Lambda, ast.ClassDef)) and n is not fn:
                if for_rename and isinstance(n, (ast.FunctionDef, ast.AsyncFunctionDef)):
                    # an outer local may be renamed inside the nested function too, unless the nested function binds the name itself
                    a = n.args
                    banned |= {x.arg for x in a.posonlyargs + a.args + a.kwonlyargs} | ({a.vararg.arg} if a.vararg else set()) | ({a.kwarg.arg} if a.kwarg else set())
                    banned |= {x.id for x in ast.walk(n) if isinstance(x, ast.Name) and isinstance(x.ctx, (ast.Store, ast.Del))}
                else:
                    banned |= {x.id for x in ast.walk(n) if isinstance(x, ast.Name)}
                if not isinstance(n, ast.Lambda):
                    banned.add(n.name)
            if isinstance(n, ast.ExceptHandler) and n.name:
                stores[n.name] = stores.get(n.name, 0) + 1
            if isinstance(n, (ast.Import, ast.ImportFrom)):
                for a in n.names:
                    banned.add((a.asname or a.name).split(".")[0])
            if isinstance(n, ast.Name):
                if isinstance(n.ctx, ast.Load):
                    loads[n.id] = loads.get(n.id, 0) + 1
                else:
                    stores[n.id] = stores.get(n.id, 0) + 1
    # paired: every store is a simple assignment directly followed (same block) by a statement holding the name's only load of that value
    paired = {}
    total_pairs = {}

    def blocks(stmts):
        for i, st in enumerate(stmts):
            if isinstance(st, ast.Assign) and len(st.targets) == 1 and isinstance(st.targets[0], ast.Name):
                t = st.targets[0].id
                nxt = stmts[i + 1] if i + 1 < len(stmts) else None
                ok = nxt is not None and sum(1 for n in ast.walk(nxt) if isinstance(n, ast.Name) and n.id == t and isinstance(n.ctx, ast.Load)) == 1 \
                    and not any(isinstance(n, ast.Name) and n.id == t and isinstance(n.ctx, ast.Load) for n in ast.walk(st.value)) \
                    and not isinstance(nxt, (ast.While,))
                total_pairs[t] = total_pairs.get(t, 0) + (1 if ok else 0)
                if not ok:
                    paired[t] = False
            for fld in ("body", "orelse", "finalbody"):
                blk = getattr(st, fld, None)
                if isinstance(blk, list) and blk and isinstance(blk[0], ast.stmt) and not isinstance(st, (ast.FunctionDef, ast.AsyncFunctionDef, ast.ClassDef)):
                    blocks(blk)
            if isinstance(st, ast.Try):
                for h in st.handlers:
                    blocks(h.body)
    blocks(fn.body)
    out = {}
    for k, v in stores.items():
        if k in banned:
            continue
        ld = loads.get(k, 0)
        is_paired = paired.get(k, True) and total_pairs.get(k, 0) == v and ld == v and v > 0
        out[k] = (v, ld, is_paired)
    nested = {n.name for n in ast.walk(fn) if n is not fn and isinstance(n, (ast.FunctionDef, ast.AsyncFunctionDef))} | \
             {tt.id for a in ast.walk(fn) if isinstance(a, ast.Assign) and isinstance(a.value, ast.Lambda) for tt in a.targets if isinstance(tt, ast.Name)}
    if nested and not for_rename:
        out["<nested>"] = (0, 0, False, nested)
    return out


def _strip_annotations(fn):
    for a in fn.args.posonlyargs + fn.args.args + fn.args.kwonlyargs:
        a.annotation = None
    if fn.args.vararg:
        fn.args.vararg.annotation = None
    if fn.args.kwarg:
        fn.args.kwarg.annotation = None
    fn.returns = None
    fn.type_comment = None


# ----------------------------------------------------------------------------------------------------- helper inlining
def _single_exit(stmts, rv):
    """rewrite a loop-free statement list with several `return`s into one that assigns `rv` instead and falls off the end; None if the
    shape is not handled.  `if c: return A` + rest  becomes  `if c: rv = A else: <rest>`."""
    out = []
    for i, st in enumerate(stmts):
        rest = stmts[i + 1:]
        if isinstance(st, ast.Return):
            out.append(ast.Assign(targets=[ast.Name(id=rv, ctx=ast.Store())], value=st.value if st.value is not None else ast.Constant(None)))
            return out
        if isinstance(st, ast.Raise):
            out.append(st)
            return out
        has_ret = any(isinstance(n, ast.Return) for n in ast.walk(st))
        if not has_ret:
            out.append(st)
            continue
        if isinstance(st, ast.If):
            if _exits(st.body) and not st.orelse:
                b, o = _single_exit(st.body, rv), _single_exit(rest, rv)
                if b is None or o is None:
                    return None
                out.append(ast.If(test=st.test, body=b, orelse=o))
                return out
            if st.orelse and _exits(st.body) and _exits(st.orelse):
                b, o = _single_exit(st.body, rv), _single_exit(st.orelse, rv)
                if b is None or o is None:
                    return None
                out.append(ast.If(test=st.test, body=b, orelse=o))
                return out
            if st.orelse and _exits(st.body):
                b, o = _single_exit(st.body, rv), _single_exit(st.orelse + rest, rv)
                if b is None or o is None:
                    return None
                out.append(ast.If(test=st.test, body=b, orelse=o))
                return out
            if st.orelse and _exits(st.orelse):
                b, o = _single_exit(st.body + rest, rv), _single_exit(st.orelse, rv)
                if b is None or o is None:
                    return None
                out.append(ast.If(test=st.test, body=b, orelse=o))
                return out
            return None
        if isinstance(st, ast.Try) and not st.finalbody and not st.orelse and not rest:
            b = _single_exit(st.body, rv)
            hs = []
            for h in st.handlers:
                hb = _single_exit(h.body, rv)
                if hb is None:
                    return None
                hs.append(ast.ExceptHandler(type=h.type, name=h.name, body=hb))
            if b is None:
                return None
            out.append(ast.Try(body=b, handlers=hs, orelse=[], finalbody=[]))
            return out
        return None
    return out


def _inlinable(fn):
    """simple helper: positional-or-keyword parameters only; loop-free control flow around the returns (or a single trailing return)"""
    a = fn.args
    if a.vararg or a.kwarg or a.posonlyargs or a.kwonlyargs:
        return False
    body = [s for s in fn.body if not _is_docstring(s)]
    if not body:
        return False
    for s in body:
        for n in ast.walk(s):
            if isinstance(n, (ast.Yield, ast.YieldFrom, ast.Await, ast.Global, ast.Nonlocal, ast.FunctionDef, ast.AsyncFunctionDef, ast.ClassDef, ast.Lambda)):
                return False
            if isinstance(n, ast.Call) and isinstance(n.func, ast.Name) and n.func.id == fn.name:
                return False
    rets = [n for s in body for n in ast.walk(s) if isinstance(n, ast.Return)]
    if len(rets) > 1 or (rets and rets[0] is not body[-1]):
        return _single_exit(body, "__r") is not None
    return True


def _helper_body(fn):
    """statements of the helper with exactly one trailing return (or none)"""
    body = [copy.deepcopy(s) for s in fn.body if not _is_docstring(s)]
    rets = [n for s in body for n in ast.walk(s) if isinstance(n, ast.Return)]
    if len(rets) > 1 or (rets and rets[0] is not body[-1]):
        se = _single_exit(body, "__r")
        return se + [ast.Return(value=ast.Name(id="__r", ctx=ast.Load()))]
    return body


class _Inliner:
    """inline calls to the given helpers (name -> (FunctionDef, kind)) inside one function body"""
    def __init__(self, helpers, owner_kind):
        self.helpers, self.n, self.owner_kind = helpers, 0, owner_kind

    def _match(self, call):
        f = call.func
        if isinstance(f, ast.Name) and f.id in self.helpers and self.helpers[f.id][1] == "function":
            return self.helpers[f.id][0], None
        if isinstance(f, ast.Attribute) and isinstance(f.value, ast.Name) and f.attr in self.helpers and self.helpers[f.attr][1] != "function":
            fn, kind = self.helpers[f.attr]
            if f.value.id in ("self", "cls") or f.value.id[:1].isupper():
                return fn, (kind, f.value.id)
        return None, None

    def _bind(self, fn, recv, call):
        """parameter -> argument expression; None when the call does not fit"""
        params = [a.arg for a in fn.args.args]
        m = {}
        if recv is not None:
            kind, rname = recv
            if kind in ("method", "classmethod"):
                if not params:
                    return None
                first = params.pop(0)
                if kind == "method" and rname != "self":
                    return None
                if kind == "classmethod" and rname == "self":
                    m[first] = ast.Call(func=ast.Name(id="type", ctx=ast.Load()), args=[ast.Name(id="self", ctx=ast.Load())], keywords=[])
                else:
                    m[first] = ast.Name(id=rname, ctx=ast.Load())
        if len(call.args) > len(params) or any(isinstance(a, ast.Starred) for a in call.args) or any(k.arg is None for k in call.keywords):
            return None
        for p, a in zip(params, call.args):
            m[p] = a
        for k in call.keywords:
            if k.arg not in params or k.arg in m:
                return None
            m[k.arg] = k.value
        defaults = fn.args.defaults
        for p, d in zip(params[len(params) - len(defaults):], defaults):
            m.setdefault(p, d)
        if any(p not in m for p in params):
            return None
        return m

    def expand_stmt(self, st):
        """returns a list of statements replacing st"""
        call, how = None, None
        if isinstance(st, ast.Assign) and isinstance(st.value, ast.Call):
            call, how = st.value, "assign"
        elif isinstance(st, ast.Return) and isinstance(st.value, ast.Call):
            call, how = st.value, "return"
        elif isinstance(st, ast.Expr) and isinstance(st.value, ast.Call):
            call, how = st.value, "expr"
        if call is not None:
            fn, recv = self._match(call)
            if fn is not None:
                m = self._bind(fn, recv, call)
                if m is not None:
                    body = _helper_body(fn)
                    self.n += 1
                    pre = []
                    loc = set(_assigned_names(ast.Module(body=body, type_ignores=[])))
                    ren = {x: f"__h{self.n}_{x}" for x in loc}
                    sub = {}
                    for p, a in m.items():
                        uses = sum(1 for s in body for n in ast.walk(s) if isinstance(n, ast.Name) and n.id == p and isinstance(n.ctx, ast.Load))
                        if p in loc or not (isinstance(a, (ast.Name, ast.Constant)) or (isinstance(a, ast.Attribute) and isinstance(a.value, ast.Name)) or uses <= 1 and not loc):
                            # parameter is re-assigned in the helper, or the argument is not trivially duplicable: bind it first
                            tmp = f"__h{self.n}_{p}"
                            pre.append(ast.Assign(targets=[ast.Name(id=tmp, ctx=ast.Store())], value=a))
                            ren[p] = tmp
                        else:
                            sub[p] = a
                    new = []
                    for s in body:
                        s = _Rename(ren).visit(s)
                        s = _Subst(sub).visit(s)
                        new.append(s)
                    last = new[-1] if new else None
                    if isinstance(last, ast.Return):
                        val = last.value if last.value is not None else ast.Constant(None)
                        new = new[:-1]
                        if how == "assign":
                            new.append(ast.Assign(targets=st.targets, value=val))
                        elif how == "return":
                            new.append(ast.Return(value=val))
                        elif not _simple_pure(val):
                            new.append(ast.Expr(value=val))
                    else:
                        if how == "assign":
                            new.append(ast.Assign(targets=st.targets, value=ast.Constant(None)))
                        elif how == "return":
                            new.append(ast.Return(value=ast.Constant(None)))
                    return pre + new
        return None

    def run_block(self, stmts):
        out = []
        for st in stmts:
            for fld in ("body", "orelse", "finalbody"):
                blk = getattr(st, fld, None)
                if isinstance(blk, list) and blk and isinstance(blk[0], ast.stmt) and not isinstance(st, (ast.FunctionDef, ast.AsyncFunctionDef, ast.ClassDef)):
                    setattr(st, fld, self.run_block(blk))
            if isinstance(st, ast.Try):
                for h in st.handlers:
                    h.body = self.run_block(h.body)
            lifted = self._lift(st)
            if lifted is not None:
                out.extend(self.run_block(lifted))
                continue
            rep = self.expand_stmt(st)
            if rep is None:
                st = self._expand_exprs(st)
                out.append(st)
            else:
                out.extend(self.run_block(rep) if self.n < 40 else rep)
        return out

    def _lift(self, st):
        """S(.. helper(args) ..)  ->  t = helper(args) ; S(.. t ..)   when nothing with a side effect is evaluated before the call and the
        helper needs statement-level inlining (more than a single return expression)"""
        if not isinstance(st, (ast.Assign, ast.Expr, ast.Return, ast.AugAssign, ast.If)) or self.n > 40:
            return None
        root = st.test if isinstance(st, ast.If) else st.value
        if root is None:
            return None
        if not isinstance(st, ast.If) and isinstance(root, ast.Call) and self._match(root)[0] is not None:
            return None     # already a statement-level call
        for n in _eval_order(root):
            if isinstance(n, ast.Call):
                fn, recv = self._match(n)
                if fn is not None:
                    body = [x for x in fn.body if not _is_docstring(x)]
                    if len(body) == 1 and isinstance(body[0], ast.Return):
                        return None     # expression helper: substituted in place
                    if any(isinstance(b, (ast.BoolOp, ast.IfExp, ast.Lambda, ast.ListComp, ast.SetComp, ast.DictComp, ast.GeneratorExp)) and _in(b, n) for b in ast.walk(root)):
                        return None
                    self.n += 1
                    tmp = f"__l{self.n}"
                    st2 = _ReplaceNode(n, ast.Name(id=tmp, ctx=ast.Load())).visit(st)
                    return [ast.Assign(targets=[ast.Name(id=tmp, ctx=ast.Store())], value=n), st2]
                if not _simple_pure(n):
                    return None
            elif isinstance(n, (ast.BoolOp, ast.IfExp, ast.Lambda, ast.ListComp, ast.SetComp, ast.DictComp, ast.GeneratorExp, ast.Await)) and not _simple_pure(n):
                if not any(isinstance(c, ast.Call) and self._match(c)[0] is not None for c in ast.walk(n)):
                    return None
        return None

    def _expand_exprs(self, st):
        """calls in expression position: only helpers whose body is a single `return <expr>`"""
        me = self

        class T(ast.NodeTransformer):
            def visit_Call(self, node):
                self.generic_visit(node)
                fn, recv = me._match(node)
                if fn is None:
                    return node
                body = [s for s in fn.body if not _is_docstring(s)]
                if len(body) != 1 or not isinstance(body[0], ast.Return) or body[0].value is None:
                    return node
                m = me._bind(fn, recv, node)
                if m is None:
                    return node
                expr = copy.deepcopy(body[0].value)
                for p, a in m.items():
                    uses = sum(1 for n in ast.walk(expr) if isinstance(n, ast.Name) and n.id == p)
                    if uses > 1 and not (isinstance(a, (ast.Name, ast.Constant)) or (isinstance(a, ast.Attribute) and isinstance(a.value, ast.Name))):
                        return node
                    if uses == 0 and not _simple_pure(a):
                        return node
                return _Subst(m).visit(expr)

            def visit_FunctionDef(self, node):
                return node
            visit_Lambda = visit_FunctionDef
        if isinstance(st, (ast.If, ast.While)):
            st.test = T().visit(st.test)
            return st
        if isinstance(st, ast.For):
            st.iter = T().visit(st.iter)
            return st
        if isinstance(st, (ast.With, ast.Try, ast.FunctionDef, ast.AsyncFunctionDef, ast.ClassDef)):
            return st
        return T().visit(st)


def _kind(fn):
    decos = [ast.unparse(d) for d in fn.decorator_list]
    if "staticmethod" in decos:
        return "staticmethod"
    if "classmethod" in decos:
        return "classmethod"
    return "method"


# ----------------------------------------------------------------------------------------------------- versions of straight-line names
def _liveness(fn, skip):
    """backward liveness over the structured statements: returns {id(store Name node) -> names live just after that definition}
    (loops by fix point; a `try` body keeps everything its handlers need alive; `skip` names are ignored)"""
    after_def = {}

    def uses(node):
        if node is None:
            return set()
        out = set()
        for n in ast.walk(node):
            if isinstance(n, ast.Name) and isinstance(n.ctx, ast.Load) and n.id not in skip:
                out.add(n.id)
        return out

    def defs_of(target):
        return [n for n in ast.walk(target) if isinstance(n, ast.Name) and isinstance(n.ctx, ast.Store) and n.id not in skip]

    loops = []

    def block(stmts, out, always):
        for st in reversed(stmts):
            out = stmt(st, out, always)
        return out

    def stmt(st, out, always):
        out = set(out) | always
        if isinstance(st, ast.Assign):
            live = set(out)
            for t in st.targets:
                for d in defs_of(t):
                    after_def[id(d)] = set(out)
                    live.discard(d.id)
            live |= always
            for t in st.targets:
                live |= {n.id for n in ast.walk(t) if isinstance(n, ast.Name) and isinstance(n.ctx, ast.Load) and n.id not in skip}
            return live | uses(st.value)
        if isinstance(st, ast.AugAssign):
            if isinstance(st.target, ast.Name) and st.target.id not in skip:
                after_def[id(st.target)] = set(out)
                return out | {st.target.id} | uses(st.value)
            return out | uses(st.target) | uses(st.value)
        if isinstance(st, ast.AnnAssign):
            live = set(out)
            if st.value is not None:
                for d in defs_of(st.target):
                    after_def[id(d)] = set(out)
                    live.discard(d.id)
            return live | always | uses(st.value)
        if isinstance(st, ast.Return):
            return uses(st.value) | always
        if isinstance(st, ast.Raise):
            return uses(st.exc) | uses(st.cause) | always
        if isinstance(st, ast.Break):
            return set(loops[-1][1]) | always if loops else out
        if isinstance(st, ast.Continue):
            return set(loops[-1][0]) | always if loops else out
        if isinstance(st, ast.If):
            return uses(st.test) | block(st.body, out, always) | block(st.orelse, out, always)
        if isinstance(st, (ast.While, ast.For)):
            after = block(st.orelse, out, always) if st.orelse else set(out)
            head = set(after) | (uses(st.test) if isinstance(st, ast.While) else set())
            for _ in range(4):
                loops.append((head, out))
                body_in = block(st.body, head, always)
                loops.pop()
                if isinstance(st, ast.For):
                    for d in defs_of(st.target):
                        after_def[id(d)] = set(body_in)
                        body_in = body_in - {d.id}
                    new_head = after | body_in
                else:
                    new_head = after | body_in | uses(st.test)
                if new_head == head:
                    break
                head = new_head
            return head | (uses(st.iter) if isinstance(st, ast.For) else set())
        if isinstance(st, ast.With):
            live = block(st.body, out, always)
            for it in st.items:
                if it.optional_vars is not None:
                    for d in defs_of(it.optional_vars):
                        after_def[id(d)] = set(live)
                        live = live - {d.id}
                live |= uses(it.context_expr)
            return live
        if isinstance(st, ast.Try):
            fin_in = block(st.finalbody, out, always) if st.finalbody else set(out)
            h_in = set()
            for h in st.handlers:
                hb = block(h.body, fin_in, always)
                if h.name and h.name not in skip:
                    hb = hb - {h.name}
                h_in |= hb | uses(h.type)
            tail = block(st.orelse, fin_in, always) if st.orelse else fin_in
            return block(st.body, tail, always | h_in) | h_in
        if isinstance(st, (ast.FunctionDef, ast.AsyncFunctionDef, ast.ClassDef)):
            return out
        return out | uses(st)
    block(fn.body, set(), set())
    return after_def


def _coalesce(fn):
    """copy coalescing: for a copy `t = s` between two locals (or a parameter) whose live ranges do not interfere -- no definition of one
    while the other is live -- t and s are the same variable: rename t to s and drop the copy.  (Run after _webs, so a name is a web.)"""
    params = {a.arg for a in fn.args.posonlyargs + fn.args.args + fn.args.kwonlyargs}
    skip = set(_captured(fn))
    for n in ast.walk(fn):
        if isinstance(n, (ast.Global, ast.Nonlocal)):
            skip |= set(n.names)
        if isinstance(n, ast.Name) and isinstance(n.ctx, ast.Del):
            skip.add(n.id)
    for _ in range(12):
        counts = _local_counts(fn)
        after_def = _liveness(fn, skip)
        def_sites = {}
        for n in ast.walk(fn):
            if isinstance(n, ast.Name) and isinstance(n.ctx, ast.Store) and n.id not in skip:
                def_sites.setdefault(n.id, []).append(n)
        done = False
        for st in _all_simple_assigns(fn):
            t = st.targets[0].id
            if not isinstance(st.value, ast.Name):
                continue
            s_ = st.value.id
            if t == s_:
                _remove_stmt(fn, st)
                done = True
                break
            if t in skip or s_ in skip or t in params or (s_ not in counts and s_ not in params) or t not in counts:
                continue
            ok = True
            for d in def_sites.get(t, []):
                if d is st.targets[0]:
                    continue
                if s_ in after_def.get(id(d), set()):
                    ok = False
            for d in def_sites.get(s_, []):
                if t in after_def.get(id(d), set()):
                    ok = False
            # exception handler names / loop targets are defined implicitly: stay away from them
            if any(isinstance(n, ast.ExceptHandler) and n.name in (t, s_) for n in ast.walk(fn)):
                ok = False
            if ok:
                _remove_stmt(fn, st)
                _RenameAll({t: s_}).visit(fn)
                done = True
                break
        if not done:
            break


def _webs(fn):
    """Split every local name (and parameter) into its def-use webs and give each web its own name.

    Reaching definitions are computed over the structured statements (if / while / for / try / with; `break`, `continue`, `return` and
    `raise` end a path).  Two definitions belong to the same web when they reach a common use.  A name whose every use is reached by one
    web only is thereby renamed per live range: re-binding a parameter (`time = f(time)`), reusing a name for a second purpose, or
    accumulating into a name in steps becomes indistinguishable from introducing fresh locals -- which is all the difference there is.
    Names captured by nested functions / lambdas, globals, and names that are deleted are left alone.  The web that holds a parameter's
    initial value keeps the parameter's name."""
    params = [a.arg for a in fn.args.posonlyargs + fn.args.args + fn.args.kwonlyargs]
    if fn.args.vararg:
        params.append(fn.args.vararg.arg)
    if fn.args.kwarg:
        params.append(fn.args.kwarg.arg)
    skip = set(_captured(fn))
    for n in ast.walk(fn):
        if isinstance(n, (ast.Global, ast.Nonlocal)):
            skip |= set(n.names)
        if isinstance(n, ast.Name) and isinstance(n.ctx, ast.Del):
            skip.add(n.id)
        if isinstance(n, (ast.Import, ast.ImportFrom)) and n is not fn:
            for a in n.names:
                skip.add((a.asname or a.name).split(".")[0])
    parent = {}

    def find(x):
        while parent.setdefault(x, x) != x:
            parent[x] = parent[parent[x]]
            x = parent[x]
        return x

    def union(a, b):
        ra, rb = find(a), find(b)
        if ra != rb:
            parent[rb] = ra
    def_node = {}       # def id -> Name node (store) / ExceptHandler / None for parameters
    use_defs = {}       # id(Name load node) -> set of def ids
    comp_bound = []

    def use(node, state):
        """record the loads in an expression"""
        if node is None:
            return
        if isinstance(node, (ast.ListComp, ast.SetComp, ast.DictComp, ast.GeneratorExp)):
            bound = {n.id for g in node.generators for n in ast.walk(g.target) if isinstance(n, ast.Name)}
            comp_bound.append(bound)
            for ch in ast.iter_child_nodes(node):
                use(ch, state)
            comp_bound.pop()
            return
        if isinstance(node, (ast.Lambda, ast.FunctionDef, ast.AsyncFunctionDef, ast.ClassDef)):
            return
        if isinstance(node, ast.NamedExpr):
            use(node.value, state)
            define(node.target, state)
            return
        if isinstance(node, ast.Name):
            if isinstance(node.ctx, ast.Load) and node.id not in skip and not any(node.id in b for b in comp_bound):
                ds = state.get(node.id, frozenset())
                use_defs[id(node)] = ds
                ds = list(ds)
                for d in ds[1:]:
                    union(ds[0], d)
            return
        for ch in ast.iter_child_nodes(node):
            use(ch, state)

    def define(target, state):
        for n in ast.walk(target):
            if isinstance(n, ast.Name) and isinstance(n.ctx, ast.Store) and n.id not in skip:
                d = ("d", id(n))
                def_node[d] = n
                find(d)
                state[n.id] = frozenset([d])
            elif isinstance(n, (ast.Attribute, ast.Subscript)) and n is not target or isinstance(n, (ast.Attribute, ast.Subscript)):
                pass
        # loads inside a store target (a[i] = ..., obj.attr = ...)
        for n in ast.walk(target):
            if isinstance(n, ast.Name) and isinstance(n.ctx, ast.Load):
                use(n, state)

    def merge(*states):
        live = [x for x in states if x is not None]
        if not live:
            return None
        out = {}
        for st in live:
            for k, v in st.items():
                out[k] = out.get(k, frozenset()) | v
        return out

    class Loop:
        def __init__(self):
            self.breaks, self.continues = [], []
    loops = []

    def block(stmts, state):
        for st in stmts:
            if state is None:
                return None
            state = stmt(st, state)
        return state

    def stmt(st, state):
        if isinstance(st, ast.Assign):
            use(st.value, state)
            for t in st.targets:
                define(t, state)
            return state
        if isinstance(st, ast.AugAssign):
            use(st.value, state)
            if isinstance(st.target, ast.Name):
                if st.target.id not in skip:
                    ds = state.get(st.target.id, frozenset())
                    use_defs[("aug", id(st))] = ds
                    ds = list(ds)
                    for d in ds[1:]:
                        union(ds[0], d)
                    d = ("d", id(st.target))
                    def_node[d] = st.target
                    find(d)
                    state[st.target.id] = frozenset([d])
            else:
                use(st.target, state)
            return state
        if isinstance(st, ast.AnnAssign):
            use(st.value, state)
            if st.value is not None:
                define(st.target, state)
            return state
        if isinstance(st, (ast.Return,)):
            use(st.value, state)
            return None
        if isinstance(st, ast.Raise):
            use(st.exc, state)
            use(st.cause, state)
            return None
        if isinstance(st, ast.Break):
            if loops:
                loops[-1].breaks.append(dict(state))
            return None
        if isinstance(st, ast.Continue):
            if loops:
                loops[-1].continues.append(dict(state))
            return None
        if isinstance(st, ast.If):
            use(st.test, state)
            a = block(st.body, dict(state))
            b = block(st.orelse, dict(state))
            return merge(a, b)
        if isinstance(st, (ast.While, ast.For)):
            if isinstance(st, ast.For):
                use(st.iter, state)
            entry = dict(state)
            lp = None
            for _ in range(3):
                lp = Loop()
                loops.append(lp)
                cur = dict(entry)
                if isinstance(st, ast.While):
                    use(st.test, cur)
                else:
                    define(st.target, cur)
                after = block(st.body, cur)
                loops.pop()
                new_entry = merge(entry, after, *lp.continues)
                if new_entry == entry:
                    break
                entry = new_entry
            exit_state = dict(entry)
            if isinstance(st, ast.While):
                use(st.test, exit_state)
            if st.orelse:
                exit_state = block(st.orelse, exit_state)
            return merge(exit_state, *(lp.breaks if lp else []))
        if isinstance(st, ast.With):
            for it in st.items:
                use(it.context_expr, state)
                if it.optional_vars is not None:
                    define(it.optional_vars, state)
            return block(st.body, state)
        if isinstance(st, ast.Try):
            # a handler may start from the state after any prefix of the body
            seen = [dict(state)]
            cur = dict(state)
            for b in st.body:
                if cur is None:
                    break
                cur = stmt(b, cur)
                if cur is not None:
                    seen.append(dict(cur))
            body_end = cur
            if st.orelse and body_end is not None:
                body_end = block(st.orelse, body_end)
            ends = [body_end]
            h_entry = merge(*seen)
            for h in st.handlers:
                hs = dict(h_entry)
                use(h.type, hs)
                if h.name and h.name not in skip:
                    d = ("d", id(h))
                    def_node[d] = h
                    find(d)
                    hs[h.name] = frozenset([d])
                ends.append(block(h.body, hs))
            out = merge(*ends)
            if st.finalbody:
                fin_in = merge(out, h_entry)
                fin_out = block(st.finalbody, fin_in)
                return fin_out if out is not None else None
            return out
        if isinstance(st, (ast.FunctionDef, ast.AsyncFunctionDef, ast.ClassDef)):
            for d_ in st.decorator_list:
                use(d_, state)
            if st.name not in skip:
                pass
            return state
        if isinstance(st, ast.Expr):
            use(st.value, state)
            return state
        if isinstance(st, ast.Assert):
            use(st.test, state)
            use(st.msg, state)
            return state
        if isinstance(st, ast.Delete):
            for t in st.targets:
                use(t, state)
            return state
        if isinstance(st, (ast.Import, ast.ImportFrom, ast.Global, ast.Nonlocal, ast.Pass)):
            return state
        for ch in ast.iter_child_nodes(st):
            if isinstance(ch, ast.expr):
                use(ch, state)
        return state

    state0 = {}
    for p_ in params:
        if p_ not in skip:
            d = ("p", p_)
            def_node[d] = None
            find(d)
            state0[p_] = frozenset([d])
    block(fn.body, state0)
    # name per web
    webs = {}
    for d in def_node:
        webs.setdefault(find(d), []).append(d)
    by_name = {}
    for root, ds in webs.items():
        nm = ds[0][1] if ds[0][0] == "p" else (def_node[ds[0]].id if isinstance(def_node[ds[0]], ast.Name) else def_node[ds[0]].name)
        by_name.setdefault(nm, []).append((root, ds))
    new_name = {}
    for nm, lst in by_name.items():
        if len(lst) == 1:
            continue
        # deterministic numbering: parameter web first, then by first definition in source order
        order_pos = {id(n): i for i, n in enumerate(ast.walk(fn))}

        def first(ds):
            return min((-1 if d[0] == "p" else order_pos.get(d[1], 10 ** 9)) for d in ds)
        lst.sort(key=lambda x: first(x[1]))
        k = 0
        for root, ds in lst:
            if any(d[0] == "p" for d in ds):
                continue
            k += 1
            new_name[root] = f"{nm}#{k}"
    if not new_name:
        return
    # rename definitions
    for d, node in def_node.items():
        nn = new_name.get(find(d))
        if nn is None or node is None:
            continue
        if isinstance(node, ast.Name):
            node.id = nn
        else:
            node.name = nn
    # rename uses (after the definitions: an AugAssign target is both)
    aug = {}
    for n in ast.walk(fn):
        if isinstance(n, ast.AugAssign) and isinstance(n.target, ast.Name):
            aug[id(n)] = n
    for n in ast.walk(fn):
        if isinstance(n, ast.Name) and isinstance(n.ctx, ast.Load) and id(n) in use_defs:
            ds = use_defs[id(n)]
            if ds:
                nn = new_name.get(find(next(iter(ds))))
                if nn is not None:
                    n.id = nn
    # x += y where the value read and the value written are different webs  ->  x' = x + y
    def fix_aug(stmts):
        for i, st in enumerate(stmts):
            if isinstance(st, ast.AugAssign) and isinstance(st.target, ast.Name) and ("aug", id(st)) in use_defs:
                ds = use_defs[("aug", id(st))]
                old = None
                if ds:
                    d0 = next(iter(ds))
                    base = d0[1] if d0[0] == "p" else (def_node[d0].id if isinstance(def_node[d0], ast.Name) else def_node[d0].name)
                    old = new_name.get(find(d0)) or (d0[1] if d0[0] == "p" else base)
                if old is not None and old != st.target.id:
                    stmts[i] = ast.Assign(targets=[ast.Name(id=st.target.id, ctx=ast.Store())], value=ast.BinOp(left=ast.Name(id=old, ctx=ast.Load()), op=st.op, right=st.value))
            for fld in ("body", "orelse", "finalbody"):
                blk = getattr(st, fld, None)
                if isinstance(blk, list) and blk and isinstance(blk[0], ast.stmt) and not isinstance(st, (ast.FunctionDef, ast.AsyncFunctionDef, ast.ClassDef)):
                    fix_aug(blk)
            if isinstance(st, ast.Try):
                for h in st.handlers:
                    fix_aug(h.body)
    fix_aug(fn.body)


# ----------------------------------------------------------------------------------------------------- normal form
def normal_form(node, helpers=None, in_class=False, single_base=None):
    """normal form (a dump string) of a function definition or of a simple statement"""
    return _dump(normal_ast(node, helpers, in_class, single_base))


def normal_ast(node, helpers=None, in_class=False, single_base=None, depth=0):
    node = copy.deepcopy(node)
    if isinstance(node, (ast.FunctionDef, ast.AsyncFunctionDef)):
        _strip_annotations(node)
        node.body = [s for s in node.body if not _is_docstring(s)] or [ast.Pass()]
        # nested functions first (their own locals get names of their own depth)
        _nested_defs(node, helpers, single_base, depth)
        if helpers:
            node.body = _Inliner(helpers, "method" if in_class else "function").run_block(node.body)
        params = {a.arg for a in node.args.posonlyargs + node.args.args + node.args.kwonlyargs}
        node.body = _split_chained(node.body)
        _readonly_lists(node)
        _scalarise(node)
        node.body = _cond_assign(node.body, params)
        _webs(node)
        node = _Expr(single_base).visit(node)
        # `return None` is `return`; falling off the end is `return`
        for n in ast.walk(node):
            if isinstance(n, ast.Return) and isinstance(n.value, ast.Constant) and n.value.value is None:
                n.value = None
        if not _exits(node.body) and not any(isinstance(n, (ast.Yield, ast.YieldFrom)) for n in ast.walk(node)):
            node.body = node.body + [ast.Return(value=None)]
        for _ in range(4):
            before = _dump(node)
            _webs(node)
            _coalesce(node)
            _propagate(node)
            node.body = _cond_assign(node.body, params)
            counts = _local_counts(node)
            node.body = _norm_block(node.body, counts) or [ast.Pass()]
            node = _Expr(single_base).visit(node)
            for n in ast.walk(node):
                if isinstance(n, ast.Return) and isinstance(n.value, ast.Constant) and n.value.value is None:
                    n.value = None
            if _dump(node) == before:
                break
        # canonical names for the locals, in order of first occurrence; adjacent independent pure assignments in one order
        for _ in range(4):
            before = _dump(node)
            counts = _local_counts(node, for_rename=True)
            order = []
            for st in node.body:
                for n in _source_order(st):
                    nm = n.id if isinstance(n, ast.Name) else (n.name if isinstance(n, ast.ExceptHandler) else None)
                    if nm in counts and nm not in order:
                        order.append(nm)
            pre = "_v" if not depth else f"_n{depth}v"
            ren = {nm: f"{pre}{i}" for i, nm in enumerate(order)}
            tmp = {nm: f"_t{i}" for i, nm in enumerate(order)}
            node.body = [_Rename(tmp, deep=True).visit(s) for s in node.body]
            node.body = [_Rename({v: ren[k] for k, v in tmp.items()}, deep=True).visit(s) for s in node.body]
            _sort_independent(node)
            if _dump(node) == before:
                break
        # comprehension variables
        node = _RenameComp().visit(node)
        node.decorator_list = [d for d in node.decorator_list]
        return node
    if isinstance(node, ast.AnnAssign) and node.value is not None and (not in_class or in_class == "plain"):
        node = ast.Assign(targets=[node.target], value=node.value)
    node = _Expr().visit(node)
    node = _RenameComp().visit(node)
    return node


def _split_chained(stmts):
    """a = b = <pure value>   ->   a = <value> ; b = <value>      (all blocks)"""
    out = []
    for st in stmts:
        for fld in ("body", "orelse", "finalbody"):
            blk = getattr(st, fld, None)
            if isinstance(blk, list) and blk and isinstance(blk[0], ast.stmt) and not isinstance(st, (ast.FunctionDef, ast.AsyncFunctionDef, ast.ClassDef)):
                setattr(st, fld, _split_chained(blk))
        if isinstance(st, ast.Try):
            for h in st.handlers:
                h.body = _split_chained(h.body)
        if isinstance(st, ast.Assign) and len(st.targets) > 1 and all(isinstance(t, ast.Name) for t in st.targets) and isinstance(st.value, ast.Constant):
            out.extend(ast.Assign(targets=[t], value=copy.deepcopy(st.value)) for t in st.targets)
        else:
            out.append(st)
    return out


def _uses_of(fn, name):
    """(node, parent) pairs for every occurrence of the local `name`"""
    out = []
    for par in ast.walk(fn):
        for ch in ast.iter_child_nodes(par):
            if isinstance(ch, ast.Name) and ch.id == name:
                out.append((ch, par))
    return out


def _readonly_lists(fn):
    """v = [a, b, ...]  assigned once and only ever indexed, iterated, measured or tested for membership  ->  v = (a, b, ...)"""
    counts = _local_counts(fn)
    for st in _all_simple_assigns(fn):
        t = st.targets[0].id
        if counts.get(t, (0,))[0] != 1 or not isinstance(st.value, ast.List):
            continue
        ok = True
        for n, par in _uses_of(fn, t):
            if n is st.targets[0]:
                continue
            if isinstance(par, ast.Subscript) and par.value is n and isinstance(par.ctx, ast.Load):
                continue
            if isinstance(par, (ast.For, ast.comprehension)) and par.iter is n:
                continue
            if isinstance(par, ast.Compare) and n in par.comparators and all(isinstance(o, (ast.In, ast.NotIn)) for o in par.ops):
                continue
            if isinstance(par, ast.Call) and isinstance(par.func, ast.Name) and par.func.id == "len" and par.args == [n]:
                continue
            ok = False
            break
        if ok:
            st.value = ast.Tuple(elts=st.value.elts, ctx=ast.Load())


def _scalarise(fn):
    """t = (e1, e2) ... a, b = t      ->      t_0 = e1 ; t_1 = e2 ... a = t_0 ; b = t_1     (t assigned once, only ever unpacked in full)"""
    counts = _local_counts(fn)
    for st in list(_all_simple_assigns(fn)):
        t = st.targets[0].id
        if counts.get(t, (0,))[0] != 1 or not isinstance(st.value, ast.Tuple) or not st.value.elts or any(isinstance(e, ast.Starred) for e in st.value.elts):
            continue
        n_el = len(st.value.elts)
        unpacks = []
        ok = True
        for n, par in _uses_of(fn, t):
            if n is st.targets[0]:
                continue
            if isinstance(par, ast.Assign) and par.value is n and len(par.targets) == 1 and isinstance(par.targets[0], ast.Tuple) and len(par.targets[0].elts) == n_el \
                    and not any(isinstance(e, ast.Starred) for e in par.targets[0].elts):
                unpacks.append(par)
                continue
            ok = False
            break
        if not ok or not unpacks:
            continue
        parts = [f"{t}__{i}" for i in range(n_el)]
        _replace_stmt(fn, st, [ast.Assign(targets=[ast.Name(id=p_, ctx=ast.Store())], value=e) for p_, e in zip(parts, st.value.elts)])
        for u in unpacks:
            _replace_stmt(fn, u, [ast.Assign(targets=[tg], value=ast.Name(id=p_, ctx=ast.Load())) for tg, p_ in zip(u.targets[0].elts, parts)])


def _replace_stmt(fn, target, new):
    def go(stmts):
        for i, st in enumerate(stmts):
            if st is target:
                stmts[i:i + 1] = new
                return True
            for fld in ("body", "orelse", "finalbody"):
                blk = getattr(st, fld, None)
                if isinstance(blk, list) and blk and isinstance(blk[0], ast.stmt) and not isinstance(st, (ast.FunctionDef, ast.AsyncFunctionDef, ast.ClassDef)):
                    if go(blk):
                        return True
            if isinstance(st, ast.Try):
                for h in st.handlers:
                    if go(h.body):
                        return True
        return False
    go(fn.body)


def _tgt_val(st):
    """(target name, names read) of a simple assignment / augmented assignment with a pure value; None otherwise"""
    if isinstance(st, ast.Assign) and len(st.targets) == 1 and isinstance(st.targets[0], ast.Name) and _simple_pure(st.value):
        return st.targets[0].id, _names_loaded(st.value)
    if isinstance(st, ast.AugAssign) and isinstance(st.target, ast.Name) and _simple_pure(st.value):
        return st.target.id, _names_loaded(st.value) | {st.target.id}
    return None


def _nested_defs(fn, helpers, single_base, depth):
    def go(stmts):
        for i, st in enumerate(stmts):
            if isinstance(st, (ast.FunctionDef, ast.AsyncFunctionDef)):
                stmts[i] = normal_ast(st, helpers, False, single_base, depth + 1)
                continue
            for fld in ("body", "orelse", "finalbody"):
                blk = getattr(st, fld, None)
                if isinstance(blk, list) and blk and isinstance(blk[0], ast.stmt) and not isinstance(st, ast.ClassDef):
                    go(blk)
            if isinstance(st, ast.Try):
                for h in st.handlers:
                    go(h.body)
    go(fn.body)


def _sort_independent(fn):
    """a maximal run of adjacent simple (augmented) assignments with pure values may be executed in any order that respects its
    read-after-write / write-after-read / write-after-write dependencies: emit the run in the canonical topological order that always
    picks, among the statements whose predecessors are out, the one with the smallest value text"""
    def key(st):
        return (type(st).__name__, _dump(st.value), _dump(getattr(st, "op", ast.Pass())), _mask(st))

    def _mask(st):
        return ""

    def go(stmts):
        i = 0
        while i < len(stmts):
            j = i
            run, meta = [], []
            while j < len(stmts):
                tv = _tgt_val(stmts[j])
                if tv is None:
                    break
                run.append(stmts[j])
                meta.append(tv)
                j += 1
            if len(run) > 1:
                n = len(run)
                preds = {k: set() for k in range(n)}
                for x in range(n):
                    for y in range(x + 1, n):
                        tx, rx = meta[x]
                        ty, ry = meta[y]
                        if tx in ry or ty in rx or tx == ty:
                            preds[y].add(x)
                done, order = set(), []
                while len(order) < n:
                    ready = [k for k in range(n) if k not in done and preds[k] <= done]
                    k = min(ready, key=lambda q: (key(run[q]), q))
                    done.add(k)
                    order.append(run[k])
                stmts[i:j] = order
            i = max(j, i + 1)
        for st in stmts:
            for fld in ("body", "orelse", "finalbody"):
                blk = getattr(st, fld, None)
                if isinstance(blk, list) and blk and isinstance(blk[0], ast.stmt) and not isinstance(st, (ast.FunctionDef, ast.AsyncFunctionDef, ast.ClassDef)):
                    go(blk)
            if isinstance(st, ast.Try):
                for h in st.handlers:
                    go(h.body)
    go(fn.body)


def _source_order(node):
    out = []

    def go(n):
        if isinstance(n, (ast.Name, ast.ExceptHandler)):
            out.append(n)
        if isinstance(n, ast.Assign):
            go(n.value)
            for t in n.targets:
                go(t)
            return
        if isinstance(n, ast.AugAssign):
            go(n.value)
            go(n.target)
            return
        for ch in ast.iter_child_nodes(n):
            go(ch)
    go(node)
    return out


class _RenameComp(ast.NodeTransformer):
    """comprehension / generator variables are private to the comprehension: rename by position"""
    def __init__(self):
        self.depth = 0

    def _comp(self, node):
        names = []
        for g in node.generators:
            for n in ast.walk(g.target):
                if isinstance(n, ast.Name) and n.id not in names:
                    names.append(n.id)
        self.depth += 1
        ren = {nm: f"_c{self.depth}_{i}" for i, nm in enumerate(names)}
        self.generic_visit(node)
        node = _RenameAll(ren).visit(node)
        self.depth -= 1
        return node

    visit_ListComp = visit_SetComp = visit_DictComp = visit_GeneratorExp = _comp


class _RenameAll(ast.NodeTransformer):
    def __init__(self, m):
        self.m = m

    def visit_Name(self, node):
        if node.id in self.m:
            return ast.Name(id=self.m[node.id], ctx=node.ctx)
        return node


# ----------------------------------------------------------------------------------------------------- substitution
def _key(st):
    if isinstance(st, (ast.FunctionDef, ast.AsyncFunctionDef)):
        tag = ""
        for d in st.decorator_list:
            t = ast.unparse(d)
            if t.endswith((".setter", ".deleter", ".getter")):
                tag = t.rsplit(".", 1)[1]
        return ("def", st.name, tag)
    if isinstance(st, ast.ClassDef):
        return ("class", st.name)
    if isinstance(st, ast.Assign):
        names = tuple(ast.unparse(t) for t in st.targets)
        return ("assign", names)
    if isinstance(st, ast.AnnAssign):
        return ("assign", (ast.unparse(st.target),))
    return None


def _scope_items(body):
    """key -> statement for the defs / classes / assignments of one scope (first occurrence wins; conditional module code is descended)"""
    out = {}

    def visit(stmts):
        for st in stmts:
            k = _key(st)
            if k is not None:
                out.setdefault(k, []).append(st)
            elif isinstance(st, ast.If):
                visit(st.body)
                visit(st.orelse)
            elif isinstance(st, ast.Try):
                visit(st.body)
                for h in st.handlers:
                    visit(h.body)
                visit(st.orelse)
    visit(body)
    return out


def _readonly_uses(tree, name):
    """every use of the module / class level name is a read that cannot tell a list from a tuple (index, iteration, membership, len)"""
    parents = {}
    for p_ in ast.walk(tree):
        for ch in ast.iter_child_nodes(p_):
            parents[id(ch)] = p_
    for n in ast.walk(tree):
        is_name = isinstance(n, ast.Name) and n.id == name
        is_attr = isinstance(n, ast.Attribute) and n.attr == name and isinstance(n.value, ast.Name) and n.value.id in ("self", "cls")
        if not (is_name or is_attr):
            continue
        par = parents.get(id(n))
        if isinstance(n.ctx, ast.Store):
            continue
        if isinstance(par, ast.Subscript) and par.value is n and isinstance(par.ctx, ast.Load):
            continue
        if isinstance(par, (ast.For, ast.comprehension)) and par.iter is n:
            continue
        if isinstance(par, ast.Compare) and n in par.comparators and all(isinstance(o, (ast.In, ast.NotIn)) for o in par.ops):
            continue
        if isinstance(par, ast.Call) and isinstance(par.func, ast.Name) and par.func.id in ("len", "sorted", "tuple", "list", "set", "frozenset", "enumerate", "zip", "iter") and n in par.args:
            continue
        return False
    return True


def _module_consts(tree):
    """private module-level names bound once to a constant or a tuple of names of builtin types"""
    out = {}
    for st in tree.body:
        if isinstance(st, ast.Assign) and len(st.targets) == 1 and isinstance(st.targets[0], ast.Name):
            v = st.value
            if isinstance(v, ast.Constant) or (isinstance(v, ast.Tuple) and all(isinstance(e, ast.Name) and e.id in ("str", "bytes", "int", "float") for e in v.elts)):
                nm = st.targets[0].id
                out[nm] = None if nm in out else v
    return {k: v for k, v in out.items() if v is not None}


def _fold_simple(e, consts):
    """tuple(str(NAME)) / NAME  with NAME a module constant  ->  the literal"""
    if isinstance(e, ast.Name) and e.id in consts:
        return consts[e.id]
    if isinstance(e, ast.Call) and isinstance(e.func, ast.Name) and e.func.id in ("tuple", "list", "str") and len(e.args) == 1 and not e.keywords:
        a = _fold_simple(e.args[0], consts)
        if isinstance(a, ast.Constant) and isinstance(a.value, str):
            if e.func.id == "str":
                return a
            elts = [ast.Constant(c) for c in a.value]
            return ast.Tuple(elts=elts, ctx=ast.Load()) if e.func.id == "tuple" else ast.List(elts=elts, ctx=ast.Load())
    return e


class _NoValue(Exception):
    pass


_SCALARS = (int, str, bytes, bool, float, type(None))
_MAX_CONST = 1 << 16


def _const_eval(e, env, depth=0):
    """Python value of a constant expression: literals, displays, arithmetic / concatenation / repetition / formatting / slicing of those, a few
    pure builtins and str/bytes methods, simple comprehensions, and the names in `env` (name -> value).  Raises _NoValue for anything else."""
    if depth > 40:
        raise _NoValue
    ev = lambda x: _const_eval(x, env, depth + 1)       # noqa: E731

    def small(v):
        if isinstance(v, (str, bytes, tuple, list, dict, set, frozenset)) and len(v) > _MAX_CONST:
            raise _NoValue
        if isinstance(v, int) and not isinstance(v, bool) and v.bit_length() > 4096:
            raise _NoValue
        return v
    if isinstance(e, ast.Constant):
        if isinstance(e.value, _SCALARS):
            return e.value
        raise _NoValue
    if isinstance(e, ast.Name):
        if isinstance(e.ctx, ast.Load) and e.id in env:
            return env[e.id]
        raise _NoValue
    if isinstance(e, ast.Tuple):
        return tuple(ev(x) for x in _no_star(e.elts))
    if isinstance(e, ast.List):
        return [ev(x) for x in _no_star(e.elts)]
    if isinstance(e, ast.Set):
        try:
            return {ev(x) for x in _no_star(e.elts)}
        except TypeError:
            raise _NoValue from None
    if isinstance(e, ast.Dict):
        if any(k is None for k in e.keys):
            out = {}
            for k, v in zip(e.keys, e.values):
                if k is None:
                    inner = ev(v)
                    if not isinstance(inner, dict):
                        raise _NoValue
                    out.update(inner)
                else:
                    out[_hashable(ev(k))] = ev(v)
            return out
        return {_hashable(ev(k)): ev(v) for k, v in zip(e.keys, e.values)}
    if isinstance(e, ast.UnaryOp):
        v = ev(e.operand)
        try:
            if isinstance(e.op, ast.USub):
                return -v
            if isinstance(e.op, ast.UAdd):
                return +v
            if isinstance(e.op, ast.Invert):
                return ~v
            if isinstance(e.op, ast.Not):
                return not v
        except TypeError:
            raise _NoValue from None
    if isinstance(e, ast.BinOp):
        a, b = ev(e.left), ev(e.right)
        try:
            if isinstance(e.op, ast.Add):
                return small(a + b)
            if isinstance(e.op, ast.Sub):
                return a - b
            if isinstance(e.op, ast.Mult):
                if isinstance(a, int) and isinstance(b, int) and a.bit_length() + b.bit_length() > 4096:
                    raise _NoValue
                if (isinstance(a, (str, bytes, tuple, list)) and isinstance(b, int) and len(a) * max(b, 0) > _MAX_CONST) or \
                        (isinstance(b, (str, bytes, tuple, list)) and isinstance(a, int) and len(b) * max(a, 0) > _MAX_CONST):
                    raise _NoValue
                return a * b
            if isinstance(e.op, ast.FloorDiv):
                return a // b
            if isinstance(e.op, ast.Mod):
                return small(a % b)
            if isinstance(e.op, ast.LShift):
                if not (isinstance(a, int) and isinstance(b, int)) or b > 4096 or b < 0:
                    raise _NoValue
                return a << b
            if isinstance(e.op, ast.RShift):
                return a >> b
            if isinstance(e.op, ast.BitOr):
                return a | b
            if isinstance(e.op, ast.BitAnd):
                return a & b
            if isinstance(e.op, ast.BitXor):
                return a ^ b
            if isinstance(e.op, ast.Pow):
                if not (isinstance(a, int) and isinstance(b, int)) or b < 0 or b > 512 or abs(a) > 1 << 64:
                    raise _NoValue
                return a ** b
        except (TypeError, ValueError, ZeroDivisionError, OverflowError, KeyError):
            raise _NoValue from None
        raise _NoValue
    if isinstance(e, ast.Subscript):
        v = ev(e.value)
        if not isinstance(v, (str, bytes, tuple, list, dict)):
            raise _NoValue
        try:
            if isinstance(e.slice, ast.Slice):
                lo, hi, stp = [None if x is None else ev(x) for x in (e.slice.lower, e.slice.upper, e.slice.step)]
                return v[lo:hi:stp]
            return v[_hashable(ev(e.slice))]
        except (TypeError, ValueError, KeyError, IndexError):
            raise _NoValue from None
    if isinstance(e, ast.IfExp):
        return ev(e.body) if ev(e.test) else ev(e.orelse)
    if isinstance(e, (ast.ListComp, ast.SetComp, ast.DictComp, ast.GeneratorExp)) and not isinstance(e, ast.GeneratorExp):
        out = []

        def gen(i, env2):
            if i == len(e.generators):
                if isinstance(e, ast.DictComp):
                    out.append((_hashable(_const_eval(e.key, env2, depth + 1)), _const_eval(e.value, env2, depth + 1)))
                else:
                    out.append(_const_eval(e.elt, env2, depth + 1))
                if len(out) > _MAX_CONST:
                    raise _NoValue
                return
            g = e.generators[i]
            if g.is_async:
                raise _NoValue
            it = _const_eval(g.iter, env2, depth + 1)
            if isinstance(it, dict):
                it = list(it)
            if not isinstance(it, (str, bytes, tuple, list, range)) or len(it) > 4096:
                raise _NoValue      # sets iterate in an order that is not part of the value
            for x in it:
                env3 = dict(env2)
                _bind_target(g.target, x, env3)
                if all(_const_eval(c, env3, depth + 1) for c in g.ifs):
                    gen(i + 1, env3)
        gen(0, env)
        try:
            if isinstance(e, ast.ListComp):
                return out
            if isinstance(e, ast.SetComp):
                return set(out)
            return dict(out)
        except TypeError:
            raise _NoValue from None
    if isinstance(e, ast.Call) and not any(isinstance(a, ast.Starred) for a in e.args) and not any(k.arg is None for k in e.keywords):
        f = e.func
        if isinstance(f, ast.Name) and f.id not in env:
            args = [ev(a) if not isinstance(a, ast.GeneratorExp) else ev(ast.ListComp(elt=a.elt, generators=a.generators)) for a in e.args]
            kw = {k.arg: ev(k.value) for k in e.keywords}
            try:
                if f.id == "len" and len(args) == 1 and not kw and isinstance(args[0], (str, bytes, tuple, list, dict, set, frozenset)):
                    return len(args[0])
                if f.id in ("tuple", "list") and len(args) <= 1 and not kw and (not args or isinstance(args[0], (str, bytes, tuple, list, range, dict))):
                    return (tuple if f.id == "tuple" else list)(*args)
                if f.id in ("set", "frozenset") and len(args) <= 1 and not kw and (not args or isinstance(args[0], (str, bytes, tuple, list, set, frozenset))):
                    return (set if f.id == "set" else frozenset)(*args)
                if f.id == "dict" and not args:
                    return dict(kw)
                if f.id == "dict" and len(args) == 1 and isinstance(args[0], (list, tuple, dict)):
                    d = dict(args[0])
                    d.update(kw)
                    return d
                if f.id == "zip" and not kw and all(isinstance(a, (str, bytes, tuple, list, range)) for a in args):
                    return list(zip(*args))
                if f.id == "range" and not kw and all(isinstance(a, int) for a in args) and 1 <= len(args) <= 3:
                    r = range(*args)
                    if len(r) > 4096:
                        raise _NoValue
                    return r
                if f.id == "str" and len(args) == 1 and not kw and isinstance(args[0], (int, str)) and not isinstance(args[0], bool):
                    return str(args[0])
                if f.id == "int" and len(args) == 1 and not kw and isinstance(args[0], int):
                    return int(args[0])
                if f.id == "bytes" and len(args) == 1 and not kw and isinstance(args[0], (list, tuple)) and all(isinstance(x, int) for x in args[0]):
                    return bytes(args[0])
                if f.id in ("min", "max") and not kw and args and all(isinstance(a, int) for a in args):
                    return (min if f.id == "min" else max)(*args)
                if f.id == "sorted" and len(args) == 1 and not kw and isinstance(args[0], (tuple, list, str, bytes)):
                    return sorted(args[0])
                if f.id == "enumerate" and 1 <= len(args) <= 2 and not kw and isinstance(args[0], (str, bytes, tuple, list)):
                    return list(enumerate(*args))
            except (TypeError, ValueError):
                raise _NoValue from None
            raise _NoValue
        if isinstance(f, ast.Attribute):
            if isinstance(f.value, ast.Name) and f.value.id == "bytes" and "bytes" not in env and f.attr == "maketrans" and len(e.args) == 2 and not e.keywords:
                a, b = ev(e.args[0]), ev(e.args[1])
                if isinstance(a, bytes) and isinstance(b, bytes) and len(a) == len(b):
                    return bytes.maketrans(a, b)
                raise _NoValue
            recv = ev(f.value)
            args = [ev(a) for a in e.args]
            if e.keywords:
                raise _NoValue
            try:
                if isinstance(recv, str) and f.attr in ("encode",) and all(isinstance(a, str) for a in args) and len(args) <= 1:
                    return recv.encode(*args)
                if isinstance(recv, bytes) and f.attr in ("decode",) and all(isinstance(a, str) for a in args) and len(args) <= 1:
                    return recv.decode(*args)
                if isinstance(recv, (str, bytes)) and f.attr in ("upper", "lower", "strip", "lstrip", "rstrip", "split", "rsplit", "replace", "join", "title", "hex", "zfill", "ljust", "rjust",
                                                                  "startswith", "endswith", "isdigit", "isascii", "find", "index", "count", "splitlines", "format"):
                    if f.attr == "join" and not (len(args) == 1 and isinstance(args[0], (tuple, list)) and all(isinstance(x, type(recv)) for x in args[0])):
                        raise _NoValue
                    if f.attr == "format" and not all(isinstance(a, _SCALARS) for a in args):
                        raise _NoValue
                    return small(getattr(recv, f.attr)(*args))
                if isinstance(recv, dict) and f.attr in ("keys", "values", "items") and not args:
                    return list(getattr(recv, f.attr)())
                if isinstance(recv, dict) and f.attr == "get" and 1 <= len(args) <= 2:
                    return recv.get(_hashable(args[0]), *args[1:])
                if isinstance(recv, int) and not isinstance(recv, bool) and f.attr == "bit_length" and not args:
                    return recv.bit_length()
                if isinstance(recv, (tuple, list)) and f.attr in ("index", "count") and len(args) == 1:
                    return getattr(recv, f.attr)(args[0])
            except (TypeError, ValueError, UnicodeError, LookupError):
                raise _NoValue from None
    if isinstance(e, ast.Compare) and len(e.ops) == 1:
        a, b = ev(e.left), ev(e.comparators[0])
        o = e.ops[0]
        try:
            if isinstance(o, ast.Eq):
                return a == b
            if isinstance(o, ast.NotEq):
                return a != b
            if isinstance(o, ast.Lt):
                return a < b
            if isinstance(o, ast.LtE):
                return a <= b
            if isinstance(o, ast.Gt):
                return a > b
            if isinstance(o, ast.GtE):
                return a >= b
            if isinstance(o, ast.In):
                return a in b
            if isinstance(o, ast.NotIn):
                return a not in b
        except TypeError:
            raise _NoValue from None
    if isinstance(e, ast.JoinedStr):
        parts = []
        for v in e.values:
            if isinstance(v, ast.Constant):
                parts.append(v.value)
            elif isinstance(v, ast.FormattedValue):
                val = ev(v.value)
                if not isinstance(val, (int, str)) or isinstance(val, bool):
                    raise _NoValue
                spec = ""
                if v.format_spec is not None:
                    spec = ev(v.format_spec)
                if v.conversion not in (-1, 115):
                    raise _NoValue
                try:
                    parts.append(format(val, spec))
                except (TypeError, ValueError):
                    raise _NoValue from None
            else:
                raise _NoValue
        return "".join(parts)
    raise _NoValue


def _no_star(elts):
    if any(isinstance(x, ast.Starred) for x in elts):
        raise _NoValue
    return elts


def _hashable(v):
    try:
        hash(v)
    except TypeError:
        raise _NoValue from None
    return v


def _bind_target(t, v, env):
    if isinstance(t, ast.Name):
        env[t.id] = v
    elif isinstance(t, (ast.Tuple, ast.List)) and isinstance(v, (tuple, list)) and len(v) == len(t.elts) and not any(isinstance(x, ast.Starred) for x in t.elts):
        for tt, vv in zip(t.elts, v):
            _bind_target(tt, vv, env)
    else:
        raise _NoValue


def _same_value(a, b):
    """equal values of equal types, all the way down (1 == True and 1 == 1.0 do not count); dicts also in the same order"""
    if type(a) is not type(b):
        return False
    if isinstance(a, (tuple, list)):
        return len(a) == len(b) and all(_same_value(x, y) for x, y in zip(a, b))
    if isinstance(a, dict):
        return len(a) == len(b) and all(_same_value(k1, k2) and _same_value(a[k1], b[k2]) for k1, k2 in zip(a, b))
    if isinstance(a, (set, frozenset)):
        return a == b and all(any(_same_value(x, y) for y in b) for x in a)
    if isinstance(a, float):
        return repr(a) == repr(b)
    return a == b


def _value_ast(v):
    """the display that denotes an immutable value (scalars and tuples of them); None when there is none worth inlining"""
    if isinstance(v, bool) or v is None or isinstance(v, (int, float)):
        return ast.Constant(v)
    if isinstance(v, (str, bytes)):
        return ast.Constant(v) if len(v) <= 512 else None
    if isinstance(v, tuple) and len(v) <= 64:
        elts = [_value_ast(x) for x in v]
        if all(x is not None for x in elts):
            return ast.Tuple(elts=elts, ctx=ast.Load())
    return None


def _module_stores(tree):
    """name -> number of places in the module that may bind it at module level (assignments, imports, defs, loops, `global` statements anywhere)"""
    n = {}

    def bump(nm):
        n[nm] = n.get(nm, 0) + 1

    def visit(stmts):
        for st in stmts:
            if isinstance(st, (ast.FunctionDef, ast.AsyncFunctionDef, ast.ClassDef)):
                bump(st.name)
                continue
            if isinstance(st, (ast.Import, ast.ImportFrom)):
                for a in st.names:
                    bump((a.asname or a.name).split(".")[0])
                continue
            for x in ast.walk(st):
                if isinstance(x, (ast.FunctionDef, ast.AsyncFunctionDef, ast.ClassDef, ast.Lambda)):
                    continue
                if isinstance(x, ast.Name) and isinstance(x.ctx, (ast.Store, ast.Del)):
                    bump(x.id)
    visit(tree.body)
    for x in ast.walk(tree):
        if isinstance(x, ast.Global):
            for nm in x.names:
                bump(nm)
                bump(nm)
    return n


def _const_env(tree, outer=None):
    """module-level (class-level, with `outer` = the module's) names bound exactly once, by a plain top-level assignment whose value is a
    constant expression -> value"""
    stores = _module_stores(tree)
    env = dict(outer or {})
    for nm in stores:
        env.pop(nm, None)           # a class-level binding hides the module-level one
    for st in tree.body:
        tg = None
        if isinstance(st, ast.Assign) and len(st.targets) == 1 and isinstance(st.targets[0], ast.Name):
            tg, val = st.targets[0].id, st.value
        elif isinstance(st, ast.AnnAssign) and isinstance(st.target, ast.Name) and st.value is not None:
            tg, val = st.target.id, st.value
        if tg is None or stores.get(tg) != 1:
            continue
        try:
            env[tg] = _const_eval(val, env)
        except _NoValue:
            pass
        except RecursionError:
            pass
    return env


class _FoldConsts(ast.NodeTransformer):
    """every maximal sub-expression that is a constant expression over literals and module-level constants is replaced by the display of its
    value (immutable values only: scalars and tuples of scalars)"""
    def __init__(self, env):
        self.env = env

    def visit(self, node):
        if isinstance(node, ast.expr) and not isinstance(node, (ast.Constant, ast.Starred)) and not isinstance(getattr(node, "ctx", None), (ast.Store, ast.Del)):
            try:
                v = _const_eval(node, self.env)
            except (_NoValue, RecursionError):
                v = _NoValue
            if v is not _NoValue:
                a = _value_ast(v)
                if a is not None:
                    return a
        return super().visit(node)

    def visit_JoinedStr(self, node):
        for v in node.values:
            if isinstance(v, ast.FormattedValue):
                v.value = self.visit(v.value)
        return node

    def _fn(self, node):
        # names the function (or anything nested in it) binds hide the module-level constant of the same name
        bound = set()
        for x in ast.walk(node):
            if isinstance(x, ast.Name) and isinstance(x.ctx, (ast.Store, ast.Del)):
                bound.add(x.id)
            elif isinstance(x, ast.arg):
                bound.add(x.arg)
            elif isinstance(x, (ast.FunctionDef, ast.AsyncFunctionDef, ast.ClassDef)) and x is not node:
                bound.add(x.name)
            elif isinstance(x, (ast.Import, ast.ImportFrom)):
                bound |= {(al.asname or al.name).split(".")[0] for al in x.names}
            elif isinstance(x, ast.ExceptHandler) and x.name:
                bound.add(x.name)
            elif isinstance(x, (ast.Global, ast.Nonlocal)):
                bound |= set(x.names)
        saved = self.env
        self.env = {k: v for k, v in saved.items() if k not in bound}
        self.generic_visit(node)
        self.env = saved
        return node

    visit_FunctionDef = visit_AsyncFunctionDef = visit_Lambda = _fn

    def _comp(self, node):
        bound = {x.id for g in node.generators for x in ast.walk(g.target) if isinstance(x, ast.Name)}
        saved = self.env
        self.env = {k: v for k, v in saved.items() if k not in bound}
        self.generic_visit(node)
        self.env = saved
        return node

    visit_ListComp = visit_SetComp = visit_DictComp = visit_GeneratorExp = _comp


def _fold_consts(node, env):
    node = copy.deepcopy(node)
    if isinstance(node, (ast.FunctionDef, ast.AsyncFunctionDef)):
        # decorators / defaults are evaluated in the enclosing scope, the body in the function's
        return _FoldConsts(env)._fn(node)
    return _FoldConsts(env).visit(node)


def _inline_values(env):
    out = {}
    for k, v in env.items():
        a = _value_ast(v)
        if a is not None:
            out[k] = a
    return out


def _assign_equiv(st, old, tree, ref, env_new=None, env_old=None):
    """two spellings of one module / class level constant: a list vs a tuple that is only ever read; an expression over module constants vs its value"""
    if not (isinstance(st, (ast.Assign, ast.AnnAssign)) and isinstance(old, (ast.Assign, ast.AnnAssign))) or st.value is None or old.value is None:
        return False
    tg = st.targets[0] if isinstance(st, ast.Assign) else st.target
    if not isinstance(tg, ast.Name):
        return False
    try:
        if _same_value(_const_eval(st.value, env_new if env_new is not None else _const_env(tree)), _const_eval(old.value, env_old if env_old is not None else _const_env(ref))):
            return True         # two constant expressions with one value (same types, same order)
    except (_NoValue, RecursionError):
        pass
    a = _fold_simple(st.value, _module_consts(tree))
    b = _fold_simple(old.value, _module_consts(ref))
    if _dump(normal_ast(ast.Expr(value=a))) == _dump(normal_ast(ast.Expr(value=b))):
        return True
    if isinstance(a, (ast.List, ast.Tuple)) and isinstance(b, (ast.List, ast.Tuple)) and [_dump(x) for x in a.elts] == [_dump(x) for x in b.elts]:
        return tg.id.startswith("_") and _readonly_uses(tree, tg.id) and _readonly_uses(ref, tg.id)
    return False


class _ConstFold(ast.NodeTransformer):
    """fold what becomes constant once a parameter is replaced by its default: comparisons with None / constants, not, and / or, conditional
    expressions, and `if` statements with a constant test"""
    def visit_Compare(self, node):
        self.generic_visit(node)
        if len(node.ops) == 1 and isinstance(node.left, ast.Constant) and isinstance(node.comparators[0], ast.Constant):
            a, b, o = node.left.value, node.comparators[0].value, node.ops[0]
            if isinstance(o, ast.Is):
                return ast.Constant(a is b if (a is None or b is None or isinstance(a, bool) or isinstance(b, bool)) else a == b)
            if isinstance(o, ast.IsNot):
                return ast.Constant(not (a is b if (a is None or b is None or isinstance(a, bool) or isinstance(b, bool)) else a == b))
            if isinstance(o, ast.Eq):
                return ast.Constant(a == b)
            if isinstance(o, ast.NotEq):
                return ast.Constant(a != b)
        return node

    def visit_UnaryOp(self, node):
        self.generic_visit(node)
        if isinstance(node.op, ast.Not) and isinstance(node.operand, ast.Constant):
            return ast.Constant(not node.operand.value)
        return node

    def visit_BoolOp(self, node):
        self.generic_visit(node)
        vals = []
        for i, v in enumerate(node.values):
            last = i == len(node.values) - 1
            if isinstance(v, ast.Constant) and not last:
                truthy = bool(v.value)
                if isinstance(node.op, ast.And):
                    if truthy:
                        continue            # True and X  ->  X
                    vals.append(v)
                    break                   # False and X -> False
                if truthy:
                    vals.append(v)
                    break                   # True or X -> True
                continue                    # False or X -> X
            vals.append(v)
        if len(vals) == 1:
            return vals[0]
        node.values = vals
        return node

    def visit_IfExp(self, node):
        self.generic_visit(node)
        if isinstance(node.test, ast.Constant):
            return node.body if node.test.value else node.orelse
        return node

    def visit_If(self, node):
        self.generic_visit(node)
        if isinstance(node.test, ast.Constant):
            return (node.body if node.test.value else node.orelse) or [ast.Pass()]
        if isinstance(node.test, ast.Tuple) and not node.test.elts:
            return node.orelse or [ast.Pass()]
        return node

    def visit_For(self, node):
        self.generic_visit(node)
        if isinstance(node.iter, ast.Tuple) and not node.iter.elts:
            return node.orelse or [ast.Pass()]      # a loop over the empty default runs no iteration
        return node

    def visit_Expr(self, node):
        self.generic_visit(node)
        c = node.value
        # lst.extend(()) on a name that only ever holds a list display / comprehension built in this function
        if isinstance(c, ast.Call) and isinstance(c.func, ast.Attribute) and c.func.attr == "extend" and len(c.args) == 1 and not c.keywords \
                and isinstance(c.args[0], ast.Tuple) and not c.args[0].elts and isinstance(c.func.value, ast.Name) and c.func.value.id in getattr(self, "lists", ()):
            return ast.Pass()
        return node


def _specialise_new_params(new, old):
    """`new` has the parameters of `old` plus optional ones with constant defaults (a backward-compatible extension): the function existing
    callers run is `new` with those parameters fixed to their defaults.  Returns that specialised function, or None."""
    if not isinstance(new, (ast.FunctionDef, ast.AsyncFunctionDef)) or not isinstance(old, (ast.FunctionDef, ast.AsyncFunctionDef)):
        return None
    na, oa = new.args, old.args

    def names(a):
        return [x.arg for x in a.posonlyargs + a.args], [x.arg for x in a.kwonlyargs]
    npos, nkw = names(na)
    opos, okw = names(oa)
    if npos[:len(opos)] != opos or (na.vararg is None) != (oa.vararg is None) or (na.kwarg is None) != (oa.kwarg is None):
        return None
    extra_pos = npos[len(opos):]
    extra_kw = [x for x in nkw if x not in okw]
    if [x for x in nkw if x in okw] != okw or (not extra_pos and not extra_kw):
        return None
    defaults = {}
    pos_defaults = dict(zip(npos[len(npos) - len(na.defaults):], na.defaults))
    for p_ in extra_pos:
        if p_ not in pos_defaults:
            return None
        defaults[p_] = pos_defaults[p_]
    for a_, d in zip(na.kwonlyargs, na.kw_defaults):
        if a_.arg in extra_kw:
            if d is None:
                return None
            defaults[a_.arg] = d
    def plain(d):
        if isinstance(d, ast.Constant) or isinstance(d, ast.Name) or (isinstance(d, ast.Tuple) and not d.elts):
            return True
        return isinstance(d, ast.Attribute) and plain(d.value)      # a module constant / class such as exc.PasslibHashWarning
    if not all(plain(d) for d in defaults.values()):
        return None
    sp = copy.deepcopy(new)
    # an extra parameter that the body re-assigns becomes a local that starts out as its default
    rebound = {n.id for n in ast.walk(sp) if isinstance(n, ast.Name) and isinstance(n.ctx, (ast.Store, ast.Del)) and n.id in defaults}
    pre = [ast.Assign(targets=[ast.Name(id=nm, ctx=ast.Store())], value=copy.deepcopy(defaults[nm])) for nm in sorted(rebound)]
    defaults = {k_: v for k_, v in defaults.items() if k_ not in rebound}
    keep_pos = len(opos)
    all_pos = sp.args.posonlyargs + sp.args.args
    n_def_drop = len(extra_pos)
    sp.args.args = [a_ for a_ in sp.args.args if a_.arg not in extra_pos]
    if n_def_drop:
        sp.args.defaults = sp.args.defaults[:len(sp.args.defaults) - n_def_drop]
    kws = [(a_, d) for a_, d in zip(sp.args.kwonlyargs, sp.args.kw_defaults) if a_.arg not in extra_kw]
    sp.args.kwonlyargs = [a_ for a_, _ in kws]
    sp.args.kw_defaults = [d for _, d in kws]
    doc = [st for st in sp.body[:1] if _is_docstring(st)]
    sp.body = doc + pre + [_Subst(defaults).visit(st) for st in sp.body[len(doc):]]
    cf = _ConstFold()
    # names every binding of which is a fresh list (display, comprehension, sorted(...), list(...))
    binds = {}
    for n in ast.walk(sp):
        if isinstance(n, ast.Assign):
            for t in n.targets:
                for x in ast.walk(t):
                    if isinstance(x, ast.Name):
                        binds.setdefault(x.id, []).append(n.value if t is x else None)
        elif isinstance(n, (ast.AugAssign, ast.AnnAssign, ast.For, ast.NamedExpr, ast.withitem, ast.comprehension, ast.ExceptHandler, ast.Import, ast.ImportFrom)):
            t = getattr(n, "target", None) or getattr(n, "optional_vars", None)
            for x in ast.walk(t) if t is not None else ():
                if isinstance(x, ast.Name):
                    binds.setdefault(x.id, []).append(None)
    params = {a_.arg for a_ in sp.args.posonlyargs + sp.args.args + sp.args.kwonlyargs} | {x.arg for x in (sp.args.vararg, sp.args.kwarg) if x}
    cf.lists = {nm for nm, vs in binds.items() if nm not in params and all(
        isinstance(v, (ast.List, ast.ListComp)) or (isinstance(v, ast.Call) and isinstance(v.func, ast.Name) and v.func.id in ("sorted", "list")) for v in vs)}
    sp = cf.visit(sp)
    flat = []
    for st in sp.body:
        flat.extend(st if isinstance(st, list) else [st])
    sp.body = flat or [ast.Pass()]
    # nested statement lists may now contain lists from visit_If: flatten them
    for n in ast.walk(sp):
        for fld in ("body", "orelse", "finalbody"):
            blk = getattr(n, fld, None)
            if isinstance(blk, list) and any(isinstance(x, list) for x in blk):
                out = []
                for x in blk:
                    out.extend(x if isinstance(x, list) else [x])
                setattr(n, fld, out)
    return sp


def substitute(tree, ref, stats=None):
    """replace every item of `tree` that is equivalent (equal normal forms) to its counterpart in `ref` by a copy of the counterpart.
    Returns (number of items that differ textually, number proven equivalent, [labels of the unproven ones])"""
    differ = proven = 0
    unproven = []

    def scope(new_body, old_body, path, in_class, single_base=None):
        nonlocal differ, proven
        new_items, old_items = _scope_items(new_body), _scope_items(old_body)
        if in_class:
            cenv_new, cenv_old = _const_env(ast.Module(body=new_body, type_ignores=[]), env_new), _const_env(ast.Module(body=old_body, type_ignores=[]), env_old)
        else:
            cenv_new, cenv_old = env_new, env_old
        # helpers present on one side only
        def helpers_of(items, other):
            h = {}
            for k, sts in items.items():
                if k[0] == "def" and k not in other and len(sts) == 1 and not k[2] and _inlinable(sts[0]):
                    h[k[1]] = (sts[0], _kind(sts[0]) if in_class else "function")
            return h
        new_h, old_h = helpers_of(new_items, old_items), helpers_of(old_items, new_items)
        if not in_class:
            mod_h_new.update(new_h)
            mod_h_old.update(old_h)
        hn = dict(mod_h_new)
        hn.update(new_h)
        ho = dict(mod_h_old)
        ho.update(old_h)
        for k, sts in new_items.items():
            olds = old_items.get(k)
            if not olds or len(olds) != len(sts):
                continue
            for st, old in zip(sts, olds):
                if k[0] == "class":
                    sb = st.bases[0].id if len(st.bases) == 1 and isinstance(st.bases[0], ast.Name) and len(old.bases) == 1 and ast.unparse(old.bases[0]) == st.bases[0].id else None
                    is_dc = any("dataclass" in ast.unparse(d) for d in st.decorator_list + old.decorator_list) or any("PHC" in ast.unparse(b) or "Info" in ast.unparse(b) for b in st.bases)
                    scope(st.body, old.body, path + [k[1]], True if is_dc else "plain", (k[1], sb))
                    continue
                if _dump(st) == _dump(old):
                    continue
                differ += 1
                label = ".".join(path + [k[1] if k[0] == "def" else "/".join(k[1])])
                try:
                    same = normal_form(st, hn, in_class, single_base) == normal_form(old, ho, in_class, single_base)
                except RecursionError:
                    same = False
                if not same and k[0] == "assign":
                    same = _assign_equiv(st, old, tree, ref, cenv_new, cenv_old)
                st_c = old_c = None
                if not same and (env_new or env_old):
                    # module-level constants read by either side replaced by their values (a literal hoisted into a named constant, a
                    # constant spelt through other constants)
                    try:
                        st_c, old_c = _fold_consts(st, env_new), _fold_consts(old, env_old)
                        if _dump(st_c) != _dump(st) or _dump(old_c) != _dump(old):
                            same = normal_form(st_c, hn, in_class, single_base) == normal_form(old_c, ho, in_class, single_base)
                    except RecursionError:
                        same = False
                if not same and k[0] == "def":
                    for cand, oref in ((st, old), (st_c, old_c)):
                        if same or cand is None:
                            continue
                        sp = _specialise_new_params(cand, oref)
                        if sp is not None:
                            try:
                                same = normal_form(sp, hn, in_class, single_base) == normal_form(oref, ho, in_class, single_base)
                            except RecursionError:
                                same = False
                if same:
                    proven += 1
                    rep = copy.deepcopy(old)
                    ast.increment_lineno(rep, getattr(st, "lineno", 1) - getattr(old, "lineno", 1))
                    _replace(new_body, st, rep)
                else:
                    unproven.append(label)
                    if stats is not None:
                        stats.append((label, st, old, hn, ho, in_class, single_base))
    mod_h_new, mod_h_old = {}, {}
    env_new, env_old = _const_env(tree), _const_env(ref)
    # module-level helpers first (methods may call module-level helpers that were extracted)
    ni, oi = _scope_items(tree.body), _scope_items(ref.body)
    # methods that exist on one side only, in any class of the module (a subclass may call a helper extracted into its base class)
    def class_helpers(items, other_items, table):
        seen = {}
        for k, sts in items.items():
            if k[0] != "class" or len(sts) != 1:
                continue
            others = other_items.get(k)
            o_items = _scope_items(others[0].body) if others and len(others) == 1 else {}
            for mk, msts in _scope_items(sts[0].body).items():
                if mk[0] == "def" and mk not in o_items and len(msts) == 1 and not mk[2] and _inlinable(msts[0]):
                    seen.setdefault(mk[1], []).append((msts[0], _kind(msts[0])))
        for nm, lst in seen.items():
            if len(lst) == 1:
                table.setdefault(nm, lst[0])
    class_helpers(ni, oi, mod_h_new)
    class_helpers(oi, ni, mod_h_old)
    for k, sts in ni.items():
        if k[0] == "def" and k not in oi and len(sts) == 1 and _inlinable(sts[0]):
            mod_h_new[k[1]] = (sts[0], "function")
    for k, sts in oi.items():
        if k[0] == "def" and k not in ni and len(sts) == 1 and _inlinable(sts[0]):
            mod_h_old[k[1]] = (sts[0], "function")
    scope(tree.body, ref.body, [], False)
    return differ, proven, unproven


def _replace(body, old, new):
    """replace statement `old` by `new` in the (possibly nested) statement lists under body"""
    for i, st in enumerate(body):
        if st is old:
            body[i] = new
            return True
        for fld in ("body", "orelse", "finalbody"):
            blk = getattr(st, fld, None)
            if isinstance(blk, list) and blk and isinstance(blk[0], ast.stmt) and not isinstance(st, (ast.FunctionDef, ast.AsyncFunctionDef)):
                if _replace(blk, old, new):
                    return True
        if isinstance(st, ast.Try):
            for h in st.handlers:
                if _replace(h.body, old, new):
                    return True
    return False
