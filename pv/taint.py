"""Hostile-hash taint analysis: which constructs can raise something other than ValueError/TypeError
when a parser is fed an arbitrary string?

Tainted = derived from the `hash`/`config` parameter by slicing, split, strip, regex groups, tuple
unpacking, helper returns.  Sinks (reported as findings):
  * assert whose test depends on tainted *content* (AssertionError; vanishes under -O)
  * constant-index subscript of a tainted sequence that is not dominated by a length / truthiness /
    regex guard on the same value and not inside try/except (IndexError, LookupError, Exception)
  * subscript of a dict by a tainted key / of a dict built from tainted data by a constant key,
    outside try/except KeyError and without an `in` guard (KeyError)
Structured walk with a path-sensitive `guarded` set; callee summaries for repo helpers."""
from __future__ import annotations

import ast

from .calls import resolve_callee
from .model import params

SAFE_INDEX_METHODS = {"split": {0, -1}, "rsplit": {0, -1}, "partition": {0, 1, 2, -1, -2, -3}, "rpartition": {0, 1, 2, -1, -2, -3},
                      "splitlines": set()}
PROPAGATE_METHODS = {"split", "rsplit", "strip", "lstrip", "rstrip", "lower", "upper", "partition", "rpartition", "encode", "decode",
                     "replace", "group", "groups", "groupdict", "splitlines", "translate", "swapcase", "removeprefix", "removesuffix"}
CATCH_INDEX = {"IndexError", "LookupError", "Exception", "BaseException"}
CATCH_KEY = {"KeyError", "LookupError", "Exception", "BaseException"}


class Finding:
    def __init__(self, kind, unit, qual, node, msg, chain):
        self.kind, self.unit, self.qual, self.node, self.msg, self.chain = kind, unit, qual, node, msg, chain

    @property
    def construct(self):
        return ast.unparse(self.node)[:140]


class Taint:
    def __init__(self, model, max_depth=5):
        self.model = model
        self.findings = []
        self.memo = {}
        self.max_depth = max_depth
        self.visited = set()

    def analyze(self, unitname, fn, cref, tainted_params, chain=()):
        """-> True if the return value is tainted"""
        key = (unitname, id(fn), cref, tuple(sorted(tainted_params)))
        if key in self.memo:
            return self.memo[key]
        if len(chain) > self.max_depth:
            return True
        self.memo[key] = True
        unit = self.model.units[unitname]
        fr = _F(self, unit, fn, cref, chain)
        self.visited.add(f"{unitname}:{unit.qualname(fn)}")
        fr.block(fn.body, _St(set(tainted_params), set(), set()))
        self.memo[key] = fr.ret_tainted
        return fr.ret_tainted


class _St:
    """tainted names, guarded names (non-empty / checked on this path), dict-like tainted names,
    ml: name -> minimum length known on this path"""

    def __init__(self, tainted, guarded, dicts, ml=None):
        self.t, self.g, self.d = tainted, guarded, dicts
        self.ml = ml or {}

    def copy(self):
        return _St(set(self.t), set(self.g), set(self.d), dict(self.ml))

    @staticmethod
    def join(states):
        states = [s for s in states if s is not None]
        if not states:
            return None
        t = set().union(*[s.t for s in states])
        d = set().union(*[s.d for s in states])
        g = set(states[0].g)
        for s in states[1:]:
            g &= s.g
        ml = {}
        for k in states[0].ml:
            if all(k in s.ml for s in states):
                ml[k] = min(s.ml[k] for s in states)
        return _St(t, g, d, ml)


class _F:
    def __init__(self, an, unit, fn, cref, chain):
        self.an, self.unit, self.fn, self.cref, self.chain = an, unit, fn, cref, chain
        self.qual = unit.qualname(fn)
        self.ret_tainted = False
        self.try_stack = []  # sets of caught exception names

    def report(self, kind, node, msg):
        self.an.findings.append(Finding(kind, self.unit.name, self.qual, node, msg, self.chain))

    def caught(self, names):
        for c in self.try_stack:
            if c & names:
                return True
        return False

    # ---------------------------------------------------------------- expressions
    def tainted(self, e, st):
        if e is None:
            return False
        if isinstance(e, ast.Name):
            return e.id in st.t
        if isinstance(e, ast.Constant):
            return False
        if isinstance(e, ast.Subscript):
            return self.tainted(e.value, st)
        if isinstance(e, ast.Attribute):
            return self.tainted(e.value, st) if not (isinstance(e.value, ast.Name) and e.value.id in ("self", "cls")) else False
        if isinstance(e, ast.Call):
            f = e.func
            if isinstance(f, ast.Attribute) and f.attr in PROPAGATE_METHODS and self.tainted(f.value, st):
                return True
            name = ast.unparse(f)
            short = name.split(".")[-1]
            if short in ("int", "float", "len", "bool", "isinstance", "ord"):
                return False
            if short in ("to_unicode", "to_native_str", "to_bytes", "to_unicode_for_identify", "as_str", "as_bytes", "str", "bytes",
                         "list", "tuple", "dict", "reversed", "sorted"):
                return any(self.tainted(a, st) for a in e.args)
            tg = resolve_callee(self.an.model, self.unit, self.fn, self.cref, f)
            if tg:
                res = False
                for (un, fn, cr, bound) in tg:
                    ps = params(fn)
                    if bound and ps and ps[0] in ("self", "cls", "mixin_cls"):
                        ps = ps[1:]
                    tp = {p for p, a in zip(ps, e.args) if self.tainted(a, st)}
                    tp |= {k.arg for k in e.keywords if k.arg and self.tainted(k.value, st)}
                    if tp:
                        res |= bool(self.an.analyze(un, fn, cr, tp, self.chain + (f"{self.unit.name}:{self.qual}",)))
                return res
            # library calls on tainted data (regex match etc.) produce tainted match objects only for .match/.search/.fullmatch
            if isinstance(f, ast.Attribute) and f.attr in ("match", "search", "fullmatch") and any(self.tainted(a, st) for a in e.args):
                return True
            return False
        if isinstance(e, (ast.BinOp,)):
            return self.tainted(e.left, st) or self.tainted(e.right, st)
        if isinstance(e, ast.IfExp):
            return self.tainted(e.body, st) or self.tainted(e.orelse, st)
        if isinstance(e, ast.BoolOp):
            return any(self.tainted(v, st) for v in e.values)
        if isinstance(e, (ast.Tuple, ast.List)):
            return any(self.tainted(x, st) for x in e.elts)
        if isinstance(e, (ast.DictComp,)):
            return any(self.tainted(g.iter, st) for g in e.generators)
        if isinstance(e, (ast.GeneratorExp, ast.ListComp, ast.SetComp)):
            return any(self.tainted(g.iter, st) for g in e.generators)
        if isinstance(e, ast.JoinedStr):
            return False
        if isinstance(e, ast.Starred):
            return self.tainted(e.value, st)
        return False

    def scan(self, e, st, guarded_extra=()):
        """look for sinks inside expression e; short-circuit aware"""
        if e is None:
            return
        if isinstance(e, ast.BoolOp):
            g = set(guarded_extra)
            for v in e.values:
                self.scan(v, st, g)
                # after `x` / `len(x) > k` in an `and`, x is guarded for the following operands;
                # after `not x` in an `or`, likewise
                nm = _truthy_name(v) if isinstance(e.op, ast.And) else _falsy_name(v)
                if nm:
                    g.add(nm)
                ln = _len_bound(v)
                if ln and isinstance(e.op, ast.And) and ln[1] is not None:
                    g.add((ln[0], ln[1]))
                elif ln and isinstance(e.op, ast.And):
                    g.add(ln[0])
                ln2 = _len_bound(v, negate=True)
                if ln2 and isinstance(e.op, ast.Or) and ln2[1] is not None:
                    g.add((ln2[0], ln2[1]))
            return
        if isinstance(e, ast.IfExp):
            self.scan(e.test, st, guarded_extra)
            g = set(guarded_extra)
            nm = _truthy_name(e.test)
            if nm:
                g.add(nm)
            self.scan(e.body, st, g)
            g2 = set(guarded_extra)
            nm = _falsy_name(e.test)
            if nm:
                g2.add(nm)
            self.scan(e.orelse, st, g2)
            return
        if isinstance(e, ast.Subscript) and not isinstance(e.slice, ast.Slice):
            self._subscript(e, st, guarded_extra)
        if isinstance(e, ast.Lambda):
            return
        if isinstance(e, (ast.GeneratorExp, ast.ListComp, ast.SetComp, ast.DictComp)):
            st2 = st.copy()
            for g in e.generators:
                self.scan(g.iter, st2, guarded_extra)
                if self.tainted(g.iter, st2):
                    for n in ast.walk(g.target):
                        if isinstance(n, ast.Name):
                            st2.t.add(n.id)
                for c in g.ifs:
                    self.scan(c, st2, guarded_extra)
            if isinstance(e, ast.DictComp):
                self.scan(e.key, st2, guarded_extra)
                self.scan(e.value, st2, guarded_extra)
            else:
                self.scan(e.elt, st2, guarded_extra)
            return
        if isinstance(e, ast.Call):
            # evaluate callee summaries for their findings
            self.tainted(e, st)
        for ch in ast.iter_child_nodes(e):
            if isinstance(ch, ast.expr):
                self.scan(ch, st, guarded_extra)
            elif isinstance(ch, ast.keyword):
                self.scan(ch.value, st, guarded_extra)
            elif isinstance(ch, ast.comprehension):
                pass

    def _subscript(self, e, st, guarded_extra):
        base, idx = e.value, e.slice
        if not isinstance(getattr(e, "ctx", None), ast.Load):
            return
        # constant integer index on tainted sequence
        if isinstance(idx, ast.Constant) and isinstance(idx.value, int) or (
                isinstance(idx, ast.UnaryOp) and isinstance(idx.op, ast.USub) and isinstance(idx.operand, ast.Constant)):
            iv = idx.value if isinstance(idx, ast.Constant) else -idx.operand.value
            if self.tainted(base, st):
                if isinstance(base, ast.Call) and isinstance(base.func, ast.Attribute) and base.func.attr in SAFE_INDEX_METHODS \
                        and iv in SAFE_INDEX_METHODS[base.func.attr]:
                    return
                nm = base.id if isinstance(base, ast.Name) else None
                need = iv + 1 if iv >= 0 else -iv
                known = None
                if nm:
                    known = st.ml.get(nm)
                    for ge in guarded_extra:
                        if isinstance(ge, tuple) and ge[0] == nm:
                            known = max(known or 0, ge[1])
                if known is not None:
                    if known >= need:
                        return
                    if not self.caught(CATCH_INDEX):
                        self.report("short-guard-index", e, f"`{ast.unparse(e)}`: the preceding length guard only guarantees {known} element(s) of "
                                                            f"`{nm}`, index {iv} needs {need} -> IndexError at the boundary length")
                    return
                if nm and (nm in st.g or nm in guarded_extra) and need <= 1:
                    return
                if nm and (nm in st.g or nm in guarded_extra) and nm not in st.ml:
                    # guarded by a non-numeric check (regex match, membership ...): accept
                    return
                if nm and ("split:" + nm) in st.g and iv in (0, -1):
                    return
                if nm and nm in st.d:
                    return
                if isinstance(base, ast.Subscript) and isinstance(base.slice, ast.Slice):
                    pass
                if self.caught(CATCH_INDEX):
                    return
                self.report("unguarded-index", e, f"`{ast.unparse(e)}`: constant index into hash-derived data without a preceding length/truthiness "
                                                  f"guard on `{ast.unparse(base)[:40]}` -> IndexError for short input")
            return
        # dict lookups
        if isinstance(base, ast.Name) and base.id in st.d:
            if self.caught(CATCH_KEY):
                return
            if base.id in st.g or base.id in guarded_extra:
                return
            self.report("unguarded-key", e, f"`{ast.unparse(e)}`: lookup in a mapping built from the hash string without KeyError handling / `in` guard")
            return
        if self.tainted(idx, st) and not self.tainted(base, st) and isinstance(base, (ast.Name, ast.Attribute)):
            if self.caught(CATCH_KEY):
                return
            k = idx.id if isinstance(idx, ast.Name) else None
            if k and (("in:" + k) in st.g or ("in:" + k) in guarded_extra):
                return
            self.report("unguarded-key", e, f"`{ast.unparse(e)}`: table lookup keyed by hash-derived data without KeyError handling / `in` guard")

    # ---------------------------------------------------------------- statements
    def block(self, stmts, st):
        for s in stmts:
            if st is None:
                return None
            st = self.stmt(s, st)
        return st

    def assign(self, tg, value, st):
        t = self.tainted(value, st)
        # NOTE: match.groupdict() always contains every named group -> constant-key lookups are safe, not tracked
        is_dict = isinstance(value, (ast.DictComp,)) and t or (
            isinstance(value, ast.Call) and ast.unparse(value.func) in ("dict",) and t)
        is_split = isinstance(value, ast.Call) and isinstance(value.func, ast.Attribute) and value.func.attr in ("split", "rsplit") and t
        for n in ast.walk(tg):
            if isinstance(n, ast.Name) and isinstance(n.ctx, ast.Store):
                if t:
                    st.t.add(n.id)
                else:
                    st.t.discard(n.id)
                st.g.discard(n.id)
                st.d.discard(n.id)
                st.ml.pop(n.id, None)
                st.g.discard("split:" + n.id)
                if is_dict:
                    st.d.add(n.id)
                if is_split and isinstance(tg, ast.Name):
                    st.g.add("split:" + n.id)  # str.split() never returns an empty list: [0] and [-1] are safe
        # x = y[:k] keeps nothing guarded; `a, b = parts` after a len guard is fine (ValueError otherwise)
        if isinstance(tg, ast.Name) and isinstance(value, ast.Name) and value.id in st.g:
            st.g.add(tg.id)
        # regex match object: groups of a successful match are safe to index by name
        return st

    def stmt(self, s, st):
        if isinstance(s, ast.Assign):
            self.scan(s.value, st)
            st = st.copy()
            self._mutations(s.value, st)
            for tg in s.targets:
                self.assign(tg, s.value, st)
            return st
        if isinstance(s, ast.AnnAssign):
            if s.value is not None:
                self.scan(s.value, st)
                st = st.copy()
                self.assign(s.target, s.value, st)
            return st
        if isinstance(s, ast.AugAssign):
            self.scan(s.value, st)
            return st
        if isinstance(s, ast.Expr):
            self.scan(s.value, st)
            self._mutations(s.value, st)
            return st
        if isinstance(s, ast.Return):
            self.scan(s.value, st)
            if self.tainted(s.value, st):
                self.ret_tainted = True
            return None
        if isinstance(s, ast.Raise):
            return None
        if isinstance(s, ast.Assert):
            t = s.test
            if _mentions_tainted(t, st) and not _is_type_assert(t):
                self.report("content-assert", s, f"`{ast.unparse(s)[:100]}`: assert on hash content -> AssertionError for hostile input, "
                                                 "and no check at all under python -O")
            return st
        if isinstance(s, ast.If):
            self.scan(s.test, st)
            a, b = st.copy(), st.copy()
            self._refine(s.test, a, b)
            sa = self.block(s.body, a)
            sb = self.block(s.orelse, b)
            return _St.join([sa, sb])
        if isinstance(s, (ast.For, ast.While)):
            st = st.copy()
            if isinstance(s, ast.For):
                self.scan(s.iter, st)
                if self.tainted(s.iter, st):
                    for n in ast.walk(s.target):
                        if isinstance(n, ast.Name):
                            st.t.add(n.id)
            else:
                self.scan(s.test, st)
            body = self.block(s.body, st.copy())
            out = _St.join([st, body])
            if s.orelse:
                out = self.block(s.orelse, out)
            return out
        if isinstance(s, ast.Try):
            caught = set()
            for h in s.handlers:
                if h.type is None:
                    caught.add("BaseException")
                else:
                    for n in ast.walk(h.type):
                        if isinstance(n, ast.Name):
                            caught.add(n.id)
                        elif isinstance(n, ast.Attribute):
                            caught.add(n.attr)
            self.try_stack.append(caught)
            sb = self.block(s.body, st.copy())
            self.try_stack.pop()
            outs = []
            if sb is not None:
                outs.append(self.block(s.orelse, sb) if s.orelse else sb)
            for h in s.handlers:
                outs.append(self.block(h.body, st.copy()))
            res = _St.join(outs)
            if s.finalbody:
                res = self.block(s.finalbody, res if res is not None else st.copy())
            return res
        if isinstance(s, ast.With):
            for it in s.items:
                self.scan(it.context_expr, st)
            return self.block(s.body, st)
        return st

    def _mutations(self, e, st):
        for n in ast.walk(e):
            if isinstance(n, ast.Call) and isinstance(n.func, ast.Attribute) and n.func.attr in ("pop", "remove", "clear") \
                    and isinstance(n.func.value, ast.Name):
                st.g.discard("split:" + n.func.value.id)
                st.g.discard(n.func.value.id)
                st.ml.pop(n.func.value.id, None)

    def _refine(self, test, a, b):
        """a: state when test true, b: when false"""
        if isinstance(test, ast.UnaryOp) and isinstance(test.op, ast.Not):
            self._refine(test.operand, b, a)
            return
        if isinstance(test, ast.BoolOp) and isinstance(test.op, ast.And):
            for v in test.values:
                self._refine(v, a, _St(set(), set(), set()))
            return
        if isinstance(test, ast.BoolOp) and isinstance(test.op, ast.Or):
            for v in test.values:
                self._refine(v, _St(set(), set(), set()), b)
            return
        if isinstance(test, ast.Name):
            a.g.add(test.id)
            return
        lb = _len_bound(test)
        if lb:
            nm, k_true = lb
            k_false = _len_bound(test, negate=True)[1]
            for stt, k in ((a, k_true), (b, k_false)):
                if k is not None:
                    stt.ml[nm] = max(stt.ml.get(nm, 0), k)
                    if k >= 1:
                        stt.g.add(nm)
            if k_true is None and k_false is None:
                a.g.add(nm)
                b.g.add(nm)
            return
        if isinstance(test, ast.Compare) and len(test.ops) == 1 and isinstance(test.ops[0], (ast.In, ast.NotIn)):
            k, d = test.left, test.comparators[0]
            if isinstance(k, ast.Name):
                (a if isinstance(test.ops[0], ast.In) else b).g.add("in:" + k.id)
            if isinstance(d, ast.Name) and isinstance(k, ast.Constant):
                (a if isinstance(test.ops[0], ast.In) else b).g.add(d.id)
            return
        if isinstance(test, ast.Compare) and len(test.ops) == 1 and isinstance(test.ops[0], (ast.Is, ast.IsNot)) \
                and isinstance(test.left, ast.Name) and isinstance(test.comparators[0], ast.Constant) and test.comparators[0].value is None:
            (b if isinstance(test.ops[0], ast.Is) else a).g.add(test.left.id)
            return
        if isinstance(test, ast.Call) and isinstance(test.func, ast.Attribute) and test.func.attr in ("startswith", "endswith") \
                and isinstance(test.func.value, ast.Name):
            # x.startswith(<non-empty const>) true => x non-empty
            a.g.add(test.func.value.id)
            if test.args and isinstance(test.args[0], ast.Constant) and isinstance(test.args[0].value, (str, bytes)):
                nm = test.func.value.id
                a.ml[nm] = max(a.ml.get(nm, 0), len(test.args[0].value))


def _truthy_name(e):
    if isinstance(e, ast.Name):
        return e.id
    return None


def _falsy_name(e):
    if isinstance(e, ast.UnaryOp) and isinstance(e.op, ast.Not) and isinstance(e.operand, ast.Name):
        return e.operand.id
    return None


def _len_guard_name(e):
    if isinstance(e, ast.Compare) and len(e.ops) == 1:
        for side in (e.left, e.comparators[0]):
            if isinstance(side, ast.Call) and isinstance(side.func, ast.Name) and side.func.id == "len" and side.args \
                    and isinstance(side.args[0], ast.Name):
                return side.args[0].id
    return None


def _len_bound(e, negate=False):
    """for `len(x) <op> k` (k int constant; also reversed) -> (x, minimum length implied when the test is true (or false if negate)) """
    if not (isinstance(e, ast.Compare) and len(e.ops) == 1):
        return None
    l, r, op = e.left, e.comparators[0], e.ops[0]
    def is_len(n):
        return isinstance(n, ast.Call) and isinstance(n.func, ast.Name) and n.func.id == "len" and n.args and isinstance(n.args[0], ast.Name)
    def const(n):
        return n.value if isinstance(n, ast.Constant) and isinstance(n.value, int) and not isinstance(n.value, bool) else None
    flip = {ast.Lt: ast.Gt, ast.Gt: ast.Lt, ast.LtE: ast.GtE, ast.GtE: ast.LtE, ast.Eq: ast.Eq, ast.NotEq: ast.NotEq}
    if is_len(l):
        name, k, opt = l.args[0].id, const(r), type(op)
    elif is_len(r) and type(op) in flip:
        name, k, opt = r.args[0].id, const(l), flip[type(op)]
    else:
        return None
    if k is None:
        return (name, None)
    neg = {ast.Lt: ast.GtE, ast.GtE: ast.Lt, ast.Gt: ast.LtE, ast.LtE: ast.Gt, ast.Eq: ast.NotEq, ast.NotEq: ast.Eq}
    if negate:
        opt = neg.get(opt, opt)
    if opt is ast.Gt:
        return (name, k + 1)
    if opt is ast.GtE:
        return (name, k)
    if opt is ast.Eq:
        return (name, k)
    return (name, None)


def _mentions_tainted(t, st):
    return any(isinstance(n, ast.Name) and n.id in st.t for n in ast.walk(t))


def _is_type_assert(t):
    txt = ast.unparse(t)
    return txt.startswith("isinstance(") or " is not None" in txt and "(" not in txt
