"""C04 -- CryptContext identifies, verifies, flags and rehashes exactly per its policy.

Decided: the decision *structure* the documentation promises is what the code does -- first match
wins in configured scheme order; "needs update" is the same predicate in needs_update() and
verify_and_update() (deprecated or the scheme says so); the three result shapes of
verify_and_update and the rehash with the same category and context keywords; new hashes from the
category's record; option overlay order all->category->scheme->scheme+category with per-handler
filtering that keeps every setting the handler declares; deprecated='auto' and default-scheme
resolution; the window used to clip a default cost is the window used to flag a hash; a cost
generator that adjusts the clipped default stays inside the window; the libpass context facts.
Not decided: the combinatorial behaviour over configurations as executed."""
from __future__ import annotations

import ast

from pv.q import text as qtext, find_if, returns
from pv.q import stmts as q_stmts
from pv.model import AnalysisError, walk_no_nested, params, UNKNOWN
from pv.norm import Normalizer, single_defs
from pv.q import has_stmt, has_if, find_if, returns, body_texts

CTX = "passlib.context"
UH = "passlib.utils.handlers"


def site(u, f):
    return f"{u}:{f}"


def _rets(fn):
    return [ast.unparse(n.value) if n.value is not None else "None" for n in walk_no_nested(fn) if isinstance(n, ast.Return)]


def rule_a(model, rep):
    R = "C04.a-first-match-wins"
    fn = model.func(CTX, "_CryptConfig.identify_record")
    loops = [n for n in walk_no_nested(fn) if isinstance(n, ast.For)]
    ok = len(loops) == 1 and ast.unparse(loops[0].iter) == "self._get_record_list(category)"
    rep.check(ok, R, site(CTX, "_CryptConfig.identify_record"), ast.unparse(loops[0].iter) if loops else "<none>", "records are scanned in the category's record list order")
    if ok:
        body = loops[0].body
        ok2 = len(body) == 1 and isinstance(body[0], ast.If) and ast.unparse(body[0].test) == "record.identify(hash)" and \
            [ast.unparse(x) for x in body[0].body] == ["return record"]
        rep.check(ok2, R, site(CTX, "_CryptConfig.identify_record"), ast.unparse(body[0])[:80], "the first record whose identify() accepts the hash is returned",
                  witness="a hash is attributed to a later scheme although an earlier configured scheme claims it (or the loop keeps the last match)")
    t = qtext(fn)
    rep.check(t.loose("raise exc.UnknownHashError") and t.loose("if not required:\n        return None"), R, site(CTX, "_CryptConfig.identify_record"), "None / UnknownHashError",
              "no match: None when not required, UnknownHashError otherwise")
    fn = model.func(CTX, "_CryptConfig._get_record_list")
    t = qtext(fn)
    rep.check("[self.get_record(scheme, category) for scheme in self.schemes]" in t, R, site(CTX, "_CryptConfig._get_record_list"),
              "[self.get_record(scheme, category) for scheme in self.schemes]", "the record list follows the configured scheme order, resolved for the category",
              witness="identification order differs from the configured scheme order")
    reorder = [ast.unparse(n)[:60] for n in walk_no_nested(fn) if isinstance(n, ast.Call) and (
        (isinstance(n.func, ast.Attribute) and n.func.attr in ("sort", "reverse", "insert", "remove", "pop", "append", "extend")) or
        (isinstance(n.func, ast.Name) and n.func.id in ("sorted", "reversed")))]
    rep.check(not reorder, R, site(CTX, "_CryptConfig._get_record_list") + " order", "; ".join(reorder) or "no reordering call", "the list is used as built: nothing sorts, reverses or edits it afterwards",
              witness="CryptContext(['lmhash', 'nthash'], default='nthash').identify(<lmhash hash>) answers 'nthash': the default scheme is probed before the first configured scheme that claims the hash")
    fn = model.func(CTX, "_CryptConfig._init_scheme_list")
    t = qtext(fn)
    rep.check("handlers.append(handler)\n        schemes.append(scheme)" in t and "self.schemes = tuple(schemes)" in t, R, site(CTX, "_CryptConfig._init_scheme_list"),
              "append in input order", "scheme order is the order given by the application")
    rep.check(t.loose("if scheme in schemes:\n            raise KeyError"), R, site(CTX, "_CryptConfig._init_scheme_list"), "duplicate -> KeyError", "duplicate scheme names are refused")


def rule_b(model, rep):
    R = "C04.b-update-predicate"
    nu = model.func(CTX, "CryptContext.needs_update")
    vu = model.func(CTX, "CryptContext.verify_and_update")
    pred = "record.deprecated or record.needs_update(hash, secret=secret)"
    r1 = _rets(nu)
    rep.check(r1 == [pred], R, site(CTX, "CryptContext.needs_update"), "; ".join(r1), f"needs_update() == {pred}",
              witness="a deprecated-scheme hash (or one outside the rounds window) is not flagged")
    iffs = [n for n in walk_no_nested(vu) if isinstance(n, ast.If) and qtext(n.test).loose("needs_update")]
    ok = len(iffs) == 1 and ast.unparse(iffs[0].test) == pred
    rep.check(ok, R, site(CTX, "CryptContext.verify_and_update"), ast.unparse(iffs[0].test) if iffs else "<none>",
              "verify_and_update() uses the same update predicate as needs_update()",
              witness="verify_and_update returns (True, None) for a hash that needs_update() flags (or rehashes one it does not flag)")
    if ok:
        body = [ast.unparse(x) for x in iffs[0].body]
        rep.check(body == ["return (True, self.hash(secret, category=category, **kwds))"], R, site(CTX, "CryptContext.verify_and_update"), "; ".join(body),
                  "the replacement hash is made by self.hash() for the *same category* with the caller's context keywords",
                  witness="with a category whose default scheme / rounds differ, the replacement hash is made under the default category's policy: "
                          "needs_update(new, category=...) is True again and the rehash loop never reaches a fixed point")
    rets = _rets(vu)
    rep.check(set(rets) == {"(False, None)", "(True, None)", "(True, self.hash(secret, category=category, **kwds))"}, R, site(CTX, "CryptContext.verify_and_update"),
              "; ".join(rets), "result shapes are exactly (False, None), (True, None), (True, new)")
    v = [n for n in walk_no_nested(vu) if isinstance(n, ast.If) and ast.unparse(n.test) == "not record.verify(secret, hash, **clean_kwds)"]
    rep.check(len(v) == 1 and [ast.unparse(x) for x in v[0].body] == ["return (False, None)"], R, site(CTX, "CryptContext.verify_and_update"),
              "if not record.verify(...): return (False, None)", "a wrong password never triggers a rehash")
    # record selection
    for q in ("CryptContext.needs_update", "CryptContext.verify", "CryptContext.verify_and_update"):
        fn = model.func(CTX, q)
        rep.check("record = self._get_or_identify_record(hash, scheme, category)" in qtext(fn), R, site(CTX, q), "record = self._get_or_identify_record(hash, scheme, category)",
                  "the record is identified within the requested category")
    fn = model.func(CTX, "CryptContext.hash")
    t = qtext(fn)
    rep.check("record = self._get_record(scheme, category)" in t and t.rstrip().endswith("return record.hash(secret, **kwds)"), R, site(CTX, "CryptContext.hash"),
              "record = self._get_record(scheme, category); return record.hash(secret, **kwds)", "new hashes come from the category's (default) record",
              witness="hash(category=...) ignores the category's default scheme / cost")
    fn = model.func(CTX, "CryptContext._get_or_identify_record")
    t = qtext(fn)
    rep.check("return self._get_record(scheme, category)" in t and "return self._identify_record(hash, category)" in t, R, site(CTX, "CryptContext._get_or_identify_record"),
              "explicit scheme -> record; else identify within category", "record lookup honours the category")
    fn = model.func(CTX, "CryptContext.verify")
    rep.check(ast.unparse(fn.body[-1]) == "return record.verify(secret, hash, **kwds)", R, site(CTX, "CryptContext.verify"), ast.unparse(fn.body[-1]), "verify() delegates to the identified record")
    # get_record: scheme None -> default scheme of the category; category falls back to the base record
    fn = model.func(CTX, "_CryptConfig.get_record")
    t = qtext(fn)
    rep.check("default = self.default_scheme(category)" in t and "self.get_record(default, category)" in t, R, site(CTX, "_CryptConfig.get_record"),
              "scheme=None -> default_scheme(category)", "the default record is the category's default scheme")
    rep.check("record = cache[scheme, category] = cache[scheme, None]" in t, R, site(CTX, "_CryptConfig.get_record"), "fallback to (scheme, None)",
              "a category without own options inherits the scheme's base record")


def rule_c(model, rep):
    R = "C04.c-clip-flag-agreement"
    clip = model.func(UH, "HasRounds._clip_to_desired_rounds")
    flag = model.func(UH, "HasRounds._calc_needs_update")
    ct = ast.unparse(clip)
    ft = ast.unparse(flag)
    rep.check("if rounds < mnd:" in ct and "if mxd is not None and rounds > mxd:" in ct, R, site(UH, "HasRounds._clip_to_desired_rounds"), "rounds < mnd / rounds > mxd",
              "clipping moves a value inside [min_desired, max_desired] with strict comparisons")
    rep.check("if min_desired_rounds and self.rounds < min_desired_rounds:\n        return True" in ft and
              "if max_desired_rounds is not None and self.rounds > max_desired_rounds:\n        return True" in ft, R, site(UH, "HasRounds._calc_needs_update"),
              "rounds < min / rounds > max -> True", "a hash is flagged exactly when its cost lies strictly outside the same window",
              witness="a cost equal to the configured limit is flagged (fresh hashes at min_rounds need updating at once) or a cost outside is not")
    rep.check("min_desired_rounds = self.min_desired_rounds" in ft and "max_desired_rounds = self.max_desired_rounds" in ft, R, site(UH, "HasRounds._calc_needs_update"),
              "same attributes", "flagging reads min_desired_rounds / max_desired_rounds, the attributes clipping uses")
    rep.check(ft.rstrip().endswith("return super()._calc_needs_update(**kwds)"), R, site(UH, "HasRounds._calc_needs_update"), "super()._calc_needs_update", "other mixins' flags are chained")
    for q, attr in ((UH + ":ParallelismMixin", "parallelism"), ("passlib.handlers.scrypt:scrypt", "block_size"), ("passlib.handlers.bcrypt:bcrypt_sha256", "version")):
        un, cn = q.split(":")
        fn = model.func(un, cn + "._calc_needs_update")
        t = qtext(fn)
        want = f"self.{attr} != type(self).{attr}" if attr != "version" else "self.version < type(self).version"
        rep.check(f"if {want}:\n        return True" in t and "return super()._calc_needs_update(**kwds)" in t, R, site(un, cn + "._calc_needs_update"), want,
                  f"a hash whose {attr} differs from the configured one is flagged; otherwise the chain continues")
    fn = model.func(UH, "GenericHandler.needs_update")
    t = qtext(fn)
    rep.check("self = cls.from_string(hash)" in t and "return self._calc_needs_update(secret=secret, **kwds)" in t, R, site(UH, "GenericHandler.needs_update"),
              "parse, then _calc_needs_update", "needs_update parses the hash and asks the mixin chain")


def rule_d(model, rep):
    """a _generate_rounds override that alters super()'s value must end inside the window: the last modification of the
    value must be followed by a bound check against the maximum"""
    R = "C04.d-generator-inside-window"
    n = 0
    for un, unit in model.units.items():
        for cn in unit.classes:
            mem = model.class_members((un, cn))
            g = mem.get("_generate_rounds")
            if not isinstance(g, ast.FunctionDef) or (un, cn) == (UH, "HasRounds"):
                continue
            n += 1
            s = site(un, f"{cn}._generate_rounds")
            mods = []
            for i, st in enumerate(g.body):
                for x in ast.walk(st):
                    if isinstance(x, ast.AugAssign) and ast.unparse(x.target) == "rounds" and isinstance(x.op, (ast.BitOr, ast.Add, ast.Mult, ast.LShift)):
                        mods.append((i, ast.unparse(x)))
                    if isinstance(x, ast.Return) and isinstance(x.value, ast.BinOp) and isinstance(x.value.op, (ast.BitOr, ast.Add, ast.Mult, ast.LShift)):
                        mods.append((i, ast.unparse(x)))
            if not mods:
                rep.hold(s and R, s, "override does not raise the generated value")
                continue
            last_i, last_txt = mods[-1]
            guard = None
            for j, st in enumerate(g.body):
                if j > last_i and isinstance(st, ast.If) and any(qtext(st.test).loose(k) for k in ("rounds > mx", "rounds > cls.max", "rounds > max")):
                    guard = j
                if j > last_i and "_clip_to_desired_rounds(rounds)" in qtext(st):
                    guard = j
            rep.check(guard is not None, R, s, f"last increase `{last_txt}`; bound check after it: {'statement %d' % guard if guard is not None else 'none'}",
                      "after the generator last raises the value it re-checks the configured maximum (max_desired_rounds / max_rounds)",
                      witness="an even bsdi_crypt max_rounds (e.g. 5000) with default at the limit: the fresh hash has max+1 rounds and needs_update() is True on every login")
            # the step back: taken exactly when the value exceeds the maximum, and only if the result is still admissible
            if guard is not None and isinstance(g.body[guard], ast.If):
                gi = g.body[guard]
                dec = [x for x in gi.body if isinstance(x, ast.AugAssign) and ast.unparse(x.target) == "rounds" and isinstance(x.op, ast.Sub)]
                cmps = [c for c in ast.walk(gi.test) if isinstance(c, ast.Compare) and len(c.ops) == 1]
                upper = [c for c in cmps if ast.unparse(c.left) == "rounds"]
                lower = [c for c in cmps if dec and ast.unparse(c.left) == f"rounds - {ast.unparse(dec[0].value)}"]
                ok = len(dec) == 1 and len(upper) == 1 and isinstance(upper[0].ops[0], ast.Gt) and len(lower) == 1 and isinstance(lower[0].ops[0], ast.GtE) \
                    and ast.unparse(lower[0].comparators[0]) in ("max(cls.min_desired_rounds or 0, cls.min_rounds)", "max(cls.min_rounds, cls.min_desired_rounds or 0)")
                rep.check(ok, R, s + " step-back", ast.unparse(gi.test), "the generator steps back iff the value exceeds the maximum (>) and the stepped value is still >= the effective minimum (the minimum itself is admissible)",
                          witness="min_rounds=4999, max_rounds=5000: the only admissible odd value is the minimum; with `>` the generator keeps 5001 and every fresh hash needs an update")
    rep.minimum(R, 1)


def rule_e(model, rep):
    R = "C04.e-policy-facts"
    fn = model.func(CTX, "_CryptConfig.get_scheme_options_with_flag")
    body = [ast.unparse(s) for s in fn.body if not (isinstance(s, ast.Expr) and isinstance(s.value, ast.Constant))]
    t = "\n".join(body)
    order = ["kwds = get_optionmap('all', None).copy()", "kwds.update(get_optionmap('all', category))", "other = get_optionmap(scheme, None)",
             "kwds.update(other)", "kwds.update(get_optionmap(scheme, category))"]
    pos = [t.find(o) for o in order]
    rep.check(all(p >= 0 for p in pos) and pos == sorted(pos), R, site(CTX, "_CryptConfig.get_scheme_options_with_flag"), str(pos),
              "options are overlaid in the order all -> all/category -> scheme -> scheme/category (later wins)",
              witness="a per-scheme setting is overridden by the global 'all' setting, or a category override is ignored")
    rep.check("allowed_settings = self.expand_settings(self.get_base_handler(scheme))" in t and "for key in set(kwds).difference(allowed_settings):\n    kwds.pop(key)" in t, R,
              site(CTX, "_CryptConfig.get_scheme_options_with_flag"), "filter 'all' options by the handler's settings", "global options a handler does not support are dropped, not passed")
    # the category-free baseline `defkwds` never sees a category map, so that any category override makes the two differ
    seq = [x for x in q_stmts(fn) if not isinstance(x, (ast.If, ast.For))]
    txts = [ast.unparse(x) for x in seq]
    i_snap = txts.index("defkwds = kwds.copy()") if "defkwds = kwds.copy()" in txts else None
    i_cat = next((i for i, x in enumerate(txts) if "category)" in x and "get_optionmap(" in x), None)
    def_updates = [x for x in txts if x.startswith("defkwds.update(")]
    ok = i_snap is not None and i_cat is not None and i_snap < i_cat and def_updates == ["defkwds.update(other)"] and "other = get_optionmap(scheme, None)" in txts
    rep.check(ok, R, site(CTX, "_CryptConfig.get_scheme_options_with_flag") + " baseline", f"snapshot@{i_snap} first category map@{i_cat}; baseline updates {def_updates}",
              "the baseline used to detect category-specific options is copied before the first category map is merged and is only ever updated with category-free maps",
              witness="overrides given only as `<category>__all__<option>` are not detected: no per-category record is built and hash()/needs_update() for that category use the default policy")
    cmp_if = find_if(fn, "kwds != defkwds", ["has_cat_options = True"])
    rep.check(bool(cmp_if) and returns(fn) == ["(kwds, has_cat_options)"], R, site(CTX, "_CryptConfig.get_scheme_options_with_flag") + " flag", "kwds != defkwds -> has_cat_options", "the flag is the inequality of the two overlays")
    fn = model.func(CTX, "_CryptConfig.expand_settings")
    t = qtext(fn)
    ok = "setting_kwds = handler.setting_kwds" in t and "setting_kwds += uh.HasRounds.using_rounds_kwds" in t and t.rstrip().endswith("return setting_kwds")
    rep.check(ok, R, site(CTX, "_CryptConfig.expand_settings"), t.split("\n", 1)[-1].replace("\n", " ; ")[:160],
              "the allowed settings of a handler are its own setting_kwds, *extended* by the rounds keywords when it has rounds",
              witness="a context-wide truncate_error=True (or vary_rounds) is silently dropped for hashers that have a rounds setting (bcrypt): "
                      "over-long passwords are truncated although the policy forbids it")
    # ... and that extension is the list of cost keywords HasRounds.using() takes: two tables that must agree
    ucls = model.cls(UH, "HasRounds")
    tab = model.fold(model.unit(UH), ast.Attribute(value=ast.Name(id="HasRounds", ctx=ast.Load()), attr="using_rounds_kwds", ctx=ast.Load()))
    ufn = model.func(UH, "HasRounds.using")
    named = [a.arg for a in ufn.args.args[1:] + ufn.args.kwonlyargs]
    want = sorted(set(named) - {"rounds"})
    got = sorted(tab) if isinstance(tab, (tuple, list)) and all(isinstance(x, str) for x in tab) else None
    rep.check(got == want and (got is None or len(got) == len(tab)), R, site(UH, "HasRounds.using_rounds_kwds"), f"{tab!r}"[:160],
              f"the cost keywords a context may pass to every rounds-based hasher are exactly the parameters of HasRounds.using() (other than `rounds`, a setting of its own): {want}",
              witness="a missing comma merges 'max_rounds' 'default_rounds' into one string: all__max_rounds / all__default_rounds are silently dropped and hash() uses the stock cost")
    # deprecated resolution
    fn = model.func(CTX, "_CryptConfig.is_deprecated_with_flag")
    t = qtext(fn)
    rep.check("if 'auto' in source:\n            return scheme != self.default_scheme(cat)" in t and "return scheme in source" in t, R, site(CTX, "_CryptConfig.is_deprecated_with_flag"),
              "auto -> scheme != default_scheme(cat); else membership", "deprecated='auto' means every scheme but the category's default",
              witness="with deprecated='auto' the default scheme itself is flagged, or a non-default one is not")
    rep.check("source = depmap.get(cat, depmap.get(None))" in t, R, site(CTX, "_CryptConfig.is_deprecated_with_flag"), "category list falls back to the global list", "category inherits the global deprecated list")
    fn = model.func(CTX, "_CryptConfig._init_default_schemes")
    t = qtext(fn)
    rep.check(has_if(fn, "scheme not in deps", ["default_map[None] = scheme", "break"]), R, site(CTX, "_CryptConfig._init_default_schemes"),
              "first non-deprecated scheme", "without an explicit default the first non-deprecated scheme is the default")
    rep.check(has_if(fn, "default in deps", ["raise ValueError('default scheme cannot be deprecated')"]), R, site(CTX, "_CryptConfig._init_default_schemes"),
              "default in deps -> ValueError", "a deprecated default is refused")
    rep.check("cdeps = dep_map.get(cat, deps)" in t and "cdefault = default_map.get(cat, default)" in t, R, site(CTX, "_CryptConfig._init_default_schemes"), "category fallbacks", "categories inherit default and deprecated list")
    fn = model.func(CTX, "_CryptConfig.default_scheme")
    t = qtext(fn)
    rep.check("return defaults[category]" in t and t.rstrip().endswith("return defaults[None]"), R, site(CTX, "_CryptConfig.default_scheme"), "category default, else global", "category default falls back to the global one")
    # record creation passes deprecated flag
    fn = model.func(CTX, "_CryptConfig._get_record_options_with_flag")
    t = qtext(fn)
    rep.check("if value:\n        kwds['deprecated'] = True" in t, R, site(CTX, "_CryptConfig._get_record_options_with_flag"), "deprecated flag into record options", "records carry their deprecated flag")
    fn = model.func(CTX, "_CryptConfig._init_records")
    t = qtext(fn)
    rep.check(has_if(fn, "cat is None or has_cat_options", ["records[scheme, cat] = self._create_record(handler, cat, **kwds)"]), R, site(CTX, "_CryptConfig._init_records"),
              "record per (scheme, category with own options)", "a category record exists exactly when the category changes something")
    # rounds alias
    fn = model.func(UH, "HasRounds.using")
    t = qtext(fn)
    rep.check("if min_desired_rounds is None:\n            min_desired_rounds = rounds" in t and "if max_desired_rounds is None:\n            max_desired_rounds = rounds" in t
              and "if default_rounds is None:\n            default_rounds = rounds" in t, R, site(UH, "HasRounds.using"), "rounds= fills min, max, default", "`rounds=` pins the cost")


def rule_f(model, rep):
    R = "C04.f-libpass-context"
    L = "libpass.context"
    fn = model.func(L, "CryptContext._default_scheme")
    rep.check(_rets(fn) == ["self._schemes[0]"], R, site(L, "CryptContext._default_scheme"), "; ".join(_rets(fn)), "default = first scheme")
    fn = model.func(L, "CryptContext._deprecated_schemes")
    rep.check("self._schemes[1:]" in _rets(fn), R, site(L, "CryptContext._deprecated_schemes"), "; ".join(_rets(fn)), "deprecated = all other schemes")
    fn = model.func(L, "CryptContext.hash")
    t = qtext(fn)
    rep.check("scheme = self._default_scheme" in t and "return scheme.hash(secret=secret)" in t, R, site(L, "CryptContext.hash"), "default scheme hashes", "hash() uses the first scheme")
    fn = model.func(L, "CryptContext.verify")
    rep.check(_rets(fn) == ["any((scheme.verify(secret=secret, hash=hash) for scheme in self._schemes))"], R, site(L, "CryptContext.verify"), "; ".join(_rets(fn)),
              "verify() accepts a match by any configured scheme")
    fn = model.func(L, "CryptContext.needs_update")
    t = qtext(fn)
    ok = "scheme for scheme in self._schemes if scheme not in self._deprecated_schemes" in t and _rets(fn) == ["all((not scheme.identify(hash) for scheme in schemes))"]
    rep.check(ok, R, site(L, "CryptContext.needs_update"), "; ".join(_rets(fn)),
              "needs_update is True exactly when no non-deprecated scheme identifies the hash (format only, not cost)",
              witness="the libpass context asks for an update of a first-scheme hash made at another cost, or accepts a deprecated scheme's hash")
    fn = model.func(L, "CryptContext._validate_init")
    rep.check(qtext(fn).loose("if not self._schemes:\n        raise ValueError"), R, site(L, "CryptContext._validate_init"), "empty -> ValueError", "an empty scheme list is refused")


from . import c08 as _c08, c09 as _c09  # noqa: E402
from .shared import Renamed as _Renamed  # noqa: E402


def run(model, rep):
    rep.explanation = __doc__
    from . import shared
    shared.fact_iter_config_by_key(model, rep, "C04.e-policy-facts")
    shared.rule_memo_keys(model, rep, "C04.i-memo-keys", ("passlib.context",), minimum=2)
    rule_a(model, rep)
    rule_b(model, rep)
    rule_c(model, rep)
    rule_d(model, rep)
    rule_e(model, rep)
    rule_f(model, rep)
    # the context applies its policy through handler.using(): settings must land on the derived class, and needs_update() must judge
    # str and bytes hashes alike
    _c09.rule_ab(model, _Renamed(rep, {"C09.a": "C04.g-using-forwarding", "C09.b": "C04.g-using-write-target"}, "C04.x-"))
    _c08.rule_b(model, _Renamed(rep, {"C08.b": "C04.h-hash-normalised"}, "C04.x-"))
