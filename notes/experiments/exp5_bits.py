"""Throw-away experiment: bit-provenance evaluation of the base64 group coders.
Values are lists of bits (LSB first): 0, 1, (sym, k) or 'T'.  Nothing is executed."""
import ast, sys

def const_bits(n):
    out = []
    while n:
        out.append(n & 1); n >>= 1
    return out

def trim(b):
    b = list(b)
    while b and b[-1] == 0: b.pop()
    return b

def ev(e, env):
    if isinstance(e, ast.Constant) and isinstance(e.value, int):
        return const_bits(e.value)
    if isinstance(e, ast.Name):
        return env[e.id]
    if isinstance(e, ast.BinOp):
        l = ev(e.left, env)
        if isinstance(e.op, (ast.LShift, ast.RShift)):
            assert isinstance(e.right, ast.Constant)
            n = e.right.value
            return trim([0] * n + l) if isinstance(e.op, ast.LShift) else trim(l[n:])
        r = ev(e.right, env)
        n = max(len(l), len(r))
        l = l + [0] * (n - len(l)); r = r + [0] * (n - len(r))
        out = []
        for a, b in zip(l, r):
            if isinstance(e.op, ast.BitAnd):
                out.append(0 if (a == 0 or b == 0) else (b if a == 1 else (a if b == 1 else 'T')))
            elif isinstance(e.op, ast.BitOr):
                out.append(b if a == 0 else (a if b == 0 else 'T'))
            else:
                raise NotImplementedError(ast.dump(e.op))
        return trim(out)
    raise NotImplementedError(ast.dump(e))

def run(body, env, width, out, fresh):
    """collect yields along the straight-line body (loop body taken once)."""
    for st in body:
        if isinstance(st, ast.Assign) and isinstance(st.value, ast.Call):     # vN = next_value()
            name = st.targets[0].id
            env[name] = [(f"{fresh[0]}", k) for k in range(width)]
            fresh[0] += 1
        elif isinstance(st, ast.Assign):
            env[st.targets[0].id] = ev(st.value, env)
        elif isinstance(st, ast.Expr) and isinstance(st.value, ast.Yield):
            out.append(ev(st.value.value, env))
        elif isinstance(st, (ast.AugAssign, ast.Assert)) or (isinstance(st, ast.Expr) and isinstance(st.value, ast.Constant)):
            pass
        else:
            raise NotImplementedError(ast.dump(st)[:80])

def analyse(fn, width_in, width_out):
    """returns {'chunk': routing, 'tail1': ..., 'tail2'/...}"""
    res = {}
    loop = [s for s in fn.body if isinstance(s, ast.While)][0]
    out = []; run(loop.body, {}, width_in, out, [0]); res["chunk"] = out
    tailif = [s for s in fn.body if isinstance(s, ast.If)][0]
    # two shapes: encode: 'if tail: v1=..; if tail==1: ... else: ...' ; decode: 'if tail: v1..v2..; yield; if tail==3: ...'
    pre = [s for s in tailif.body if not isinstance(s, ast.If)]
    inner = [s for s in tailif.body if isinstance(s, ast.If)][0]
    for label, branch in (("A", inner.body), ("B", inner.orelse)):
        out = []; env = {}; fresh = [0]
        run(pre, env, width_in, out, fresh)
        run(branch, env, width_in, out, fresh)
        res["tail" + label + ":" + ast.unparse(inner.test)] = out
    return res

def show(routing, width_out):
    rows = []
    for y in routing:
        assert len(y) <= width_out, ("yield wider than symbol", y)
        rows.append(y + [0] * (width_out - len(y)))
    return rows

def check_perm(routing, n_in_syms, width_in, width_out, label):
    used = [b for y in routing for b in y if b not in (0, 1)]
    assert 'T' not in used, (label, "overlapping bits")
    want = {(str(s), k) for s in range(n_in_syms) for k in range(width_in)}
    assert len(used) == len(set(used)), (label, "bit used twice")
    missing = want - set(used)
    return missing

for path in ("/repo/passlib/utils/binary.py", "/repo/libpass/_utils/binary.py"):
    tree = ast.parse(open(path).read())
    fns = {n.name: n for n in ast.walk(tree) if isinstance(n, ast.FunctionDef)}
    for name in ("_encode_bytes_little", "_encode_bytes_big", "_decode_bytes_little", "_decode_bytes_big"):
        if name not in fns: continue
        enc = name.startswith("_encode")
        win, wout = (8, 6) if enc else (6, 8)
        r = analyse(fns[name], win, wout)
        for k, routing in r.items():
            rows = show(routing, wout)
            nin = len({b[0] for y in routing for b in y if isinstance(b, tuple)})
            missing = check_perm(routing, nin, win, wout, (name, k))
            print(f"{path[6:]}::{name} {k}: {len(routing)} symbols from {nin} inputs; unused input bits: {sorted(missing)}")
# compose little: decode(encode(x)) == x for the chunk
tree = ast.parse(open("/repo/passlib/utils/binary.py").read())
fns = {n.name: n for n in ast.walk(tree) if isinstance(n, ast.FunctionDef)}
for end in ("little", "big"):
    e = analyse(fns["_encode_bytes_" + end], 8, 6)["chunk"]
    d = analyse(fns["_decode_bytes_" + end], 6, 8)["chunk"]
    # substitute: decode's symbol s bit k  := e[s][k]
    ok = True
    for i, y in enumerate(d):
        y = y + [0] * (8 - len(y))
        for k, b in enumerate(y):
            s, j = b
            src = (e[int(s)] + [0] * 6)[j]
            if src != (str(i), k): ok = False
    print("decode∘encode identity", end, ok)
# reference layouts
def ref(end):
    W = [("%d" % (i // 8), i % 8) for i in range(24)]            # little: byte0 = bits 0..7
    if end == "big":
        W = [("%d" % (2 - i // 8), i % 8) for i in range(24)]    # big: byte0 is most significant
        return [W[18:24], W[12:18], W[6:12], W[0:6]]
    return [W[0:6], W[6:12], W[12:18], W[18:24]]
for end in ("little", "big"):
    e = [y + [0] * (6 - len(y)) for y in analyse(fns["_encode_bytes_" + end], 8, 6)["chunk"]]
    print("matches reference layout", end, e == ref(end))
