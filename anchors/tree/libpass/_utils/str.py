from typing import AnyStr


def repeat_string(source: AnyStr, size: int) -> AnyStr:
    """
    repeat or truncate <source> string, so it has length <size>
    """
    mult = (size - 1) // len(source) + 1
    return (source * mult)[:size]
