from passlib import registry
from passlib.context import LazyCryptContext

# local
__all__ = [
    "linux_context",
    "linux2_context",
    "openbsd_context",
    "netbsd_context",
    "freebsd_context",
    "host_context",
]


# known platform names - linux2

linux_context = linux2_context = LazyCryptContext(
    schemes=["sha512_crypt", "sha256_crypt", "md5_crypt", "des_crypt", "unix_disabled"],
    deprecated=["des_crypt"],
)


# known platform names -
#   freebsd2
#   freebsd3
#   freebsd4
#   freebsd5
#   freebsd6
#   freebsd7
#
#   netbsd1

# referencing source via -http://fxr.googlebit.com
# freebsd 6,7,8 - des, md5, bcrypt, bsd_nthash
# netbsd - des, ext, md5, bcrypt, sha1
# openbsd - des, ext, md5, bcrypt

freebsd_context = LazyCryptContext(
    ["bcrypt", "md5_crypt", "bsd_nthash", "des_crypt", "unix_disabled"]
)

openbsd_context = LazyCryptContext(
    ["bcrypt", "md5_crypt", "bsdi_crypt", "des_crypt", "unix_disabled"]
)

netbsd_context = LazyCryptContext(
    ["bcrypt", "sha1_crypt", "md5_crypt", "bsdi_crypt", "des_crypt", "unix_disabled"]
)

# XXX: include darwin in this list? it's got a BSD crypt variant,
# but that's not what it uses for user passwords.

if registry.os_crypt_present:
    # NOTE: this is basically mimicing the output of os crypt(),
    # except that it uses passlib's (usually stronger) defaults settings,
    # and can be inspected and used much more flexibly.

    def _iter_os_crypt_schemes():
        """helper which iterates over supported os_crypt schemes"""
        out = registry.get_supported_os_crypt_schemes()
        if out:
            # only offer disabled handler if there's another scheme in front,
            # as this can't actually hash any passwords
            out += ("unix_disabled",)
        return out

    host_context = LazyCryptContext(_iter_os_crypt_schemes())


# known platform strings -
# aix3
# aix4
# atheos
# beos5
# darwin
# generic
# hp-ux11
# irix5
# irix6
# mac
# next3
# os2emx
# riscos
# sunos5
# unixware7
