"""Positive controls: one source edit each, applied to a scratch copy; the named rule must fire.
Fields: id, property, file (relative to the repo root), old/new (exact text, `old` must occur once) or edits=[(old,new),..],
rule (substring of the rule id that must report the violation)."""
CONTROLS = []


def C(id, property, file, old, new, rule, note=""):
    CONTROLS.append(dict(id=id, property=property, file=file, old=old, new=new, rule=rule, note=note))


U = "passlib/utils/__init__.py"
UH = "passlib/utils/handlers.py"
BC = "passlib/handlers/bcrypt.py"

# ---- C06
C("c06-revert-F6", "C06", U, "value >>= 8", "value >>= 3", "C06.b-byte", "revert of fix 86786fb")
C("c06-mask-7f", "C06", U, "yield value & 0xFF", "yield value & 0x7F", "C06.b-byte")
C("c06-bits", "C06", U, "rng.getrandbits(count << 3)", "rng.getrandbits(count << 2)", "C06.b-byte")
C("c06-trip", "C06", U, "        while i < count:\n            yield value & 0xFF", "        while i <= count:\n            yield value & 0xFF", "C06.b-byte")
C("c06-str-range", "C06", U, "rng.randrange(0, letters**count)", "rng.randrange(0, letters**count - 1)", "C06.b-digit")
C("c06-str-div", "C06", U, "value //= letters", "value //= letters - 1", "C06.b-digit")
C("c06-str-mod", "C06", U, "yield charset[value % letters]", "yield charset[value % (letters - 1)]", "C06.b-digit")
C("c06-rng-mt", "C06", U, "    rng: random.Random = random.SystemRandom()", "    rng: random.Random = random.Random()", "C06.a")
C("c06-module-random", "C06", "passlib/handlers/cisco.py", "return uh.rng.randint(0, 15)", "import random\n        return random.randint(0, 15)", "C06.a")
C("c06-salt-size", "C06", UH, "return getrandstr(rng, cls.default_salt_chars, cls.default_salt_size)", "return getrandstr(rng, cls.default_salt_chars, cls.min_salt_size)", "C06.c")
C("c06-rawsalt", "C06", UH, "return getrandbytes(rng, cls.default_salt_size)", "return getrandbytes(rng, cls.min_salt_size)", "C06.c")
C("c06-forbidden", "C06", "passlib/context.py", '_forbidden_scheme_options = set(["salt"])', '_forbidden_scheme_options = set(["salts"])', "C06.e")
C("c06-entropy", "C06", "passlib/pwd.py", "min_length = int(ceil(entropy / self.entropy_per_symbol))", "min_length = int(entropy / self.entropy_per_symbol)", "C06.d")
C("c06-totp-size", "C06", "passlib/totp.py", "                size = digest_size\n", "                size = digest_size // 2\n", "C06.c")
C("c06-final-salt", "C06", BC, 'final_salt_chars = ".Oeu"', 'final_salt_chars = ".Oev"', "C06.c")

# ---- C03
C("c03-revert-F2", "C03", BC, "        from passlib.crypto._blowfish import raw_bcrypt as _builtin_bcrypt\n", "", "C03.a", "revert of fix 9e77c0c")
C("c03-revert-F3", "C03", BC, "_bcrypt.hashpw(secret[:72], config)", "_bcrypt.hashpw(secret, config)", "C03.e", "revert of fix 2da8fb4")
C("c03-loader-swap", "C03", "passlib/handlers/md5_crypt.py", "cls._set_calc_checksum_backend(cls._calc_checksum_os_crypt)", "cls._set_calc_checksum_backend(cls._calc_checksum_builtin)", "C03.b")
C("c03-fallback-drop", "C03", "passlib/handlers/sha1_crypt.py", "            return self._calc_checksum_builtin(secret)\n        if not hash.startswith(config) or len(hash) != len(config) + 29:", "            raise uh.exc.MissingBackendError('crypt failed')\n        if not hash.startswith(config) or len(hash) != len(config) + 29:", "C03.c")
C("c03-slice-md5", "C03", "passlib/handlers/md5_crypt.py", "return hash[-22:]", "return hash[-23:]", "C03.d")
C("c03-slice-bsdi", "C03", "passlib/handlers/des_crypt.py", "return hash[-11:]", "return hash[-10:]", "C03.d")
C("c03-sha2-sep", "C03", "passlib/handlers/sha2_crypt.py", "hash[-cs - 1] != _UDOLLAR", "hash[-cs] != _UDOLLAR", "C03.d")
C("c03-nolock", "C03", U, "            with _safe_crypt_lock:\n                result = _crypt(secret, hash)", "            if True:\n                result = _crypt(secret, hash)", "C03.f")
C("c03-nul", "C03", U, '        if _NULL in secret:\n            raise ValueError("null character in secret")\n', "", "C03.f")
C("c03-dryrun", "C03", UH, "            if not dryrun:\n                cls.__backend = name", "            if True:\n                cls.__backend = name", "C03.g")
C("c03-dryrun2", "C03", UH, "        if not cls._pending_dry_run:\n            cls._calc_checksum_backend = func", "        if True:\n            cls._calc_checksum_backend = func", "C03.g")
C("c03-ident-chain", "C03", BC, "        elif ident == IDENT_2Y:\n            if cls._lacks_2y_support:", "        elif ident == IDENT_2X:\n            if cls._lacks_2y_support:", "C03.i")
C("c03-scrypt-args", "C03", "passlib/crypto/scrypt/__init__.py", "return _scrypt(secret, salt, n, r, p, keylen)", "return _scrypt(secret, salt, n, p, r, keylen)", "C03.i")
C("c03-scrypt-kw", "C03", "passlib/crypto/scrypt/__init__.py", "password=secret, salt=salt, n=n, r=r, p=p, dklen=keylen, maxmem=maxmem", "password=secret, salt=salt, n=n, r=p, p=r, dklen=keylen, maxmem=maxmem", "C03.i")
C("c03-builtin-args", "C03", BC, "secret, ident[1:-1], self.salt.encode(\"ascii\"), self.rounds", "secret, ident[1:], self.salt.encode(\"ascii\"), self.rounds", "C03.h")

# ---- C01
SC = "libpass/hashers/sha_crypt.py"
C("c01-secret-noencode", "C01", "passlib/handlers/phpass.py", '        if isinstance(secret, str):\n            secret = secret.encode("utf-8")\n', "", "C01.e-text")
C("c01-latin1", "C01", "passlib/handlers/mysql.py", 'class mysql41(uh.StaticHandler):', 'class mysql41(uh.StaticHandler):\n    pass\n\nclass _x:', "C01", "placeholder replaced below")
CONTROLS.pop()
C("c01-latin1", "C01", "passlib/handlers/postgres.py", 'secret = secret.encode("utf-8")', 'secret = secret.encode("latin-1")', "C01.e-secret-encoding")
C("c01-verify-true", "C01", UH, "        return consteq(self._calc_checksum(secret), chk)", "        return consteq(self._calc_checksum(secret), chk) or True", "C01")
C("c01-verify-same", "C01", UH, "        return consteq(self._calc_checksum(secret), chk)", "        return consteq(chk, chk)", "C01")
C("c01-disabled-true", "C01", "passlib/handlers/misc.py", "            raise uh.exc.InvalidHashError(cls)\n        return False\n", "            raise uh.exc.InvalidHashError(cls)\n        return not secret\n", "C01.c")
C("c01-unwrap", "C01", UH, "return self.orig_prefix + hash[len(prefix) :]", "return self.orig_prefix + hash[len(prefix) - 1 :]", "C01.f")
C("c01-wrap-noop", "C01", UH, "        return self._wrap_hash(self.wrapped.hash(secret, **kwds))", "        return self.wrapped.hash(secret, **kwds)", "C01.f")
C("c01-user-drop", "C01", UH, "        return super().verify(secret, hash, user=user, **context)", "        return super().verify(secret, hash, **context)", "C01.d")
C("c01-mssql-upper", "C01", "passlib/handlers/mssql.py", "        result = _raw_mssql(secret.upper(), self.salt)\n        return consteq(result, chk[20:])", "        result = chk[20:]\n        return consteq(result, chk[20:])", "C01.c")
C("c01-revert-F1", "C01", SC, "        return self._info_cls(\n            rounds=self._rounds,", "        return SHA256CryptInfo(\n            rounds=self._rounds,", "C01.a", "revert of fix d13c2f8")
C("c01-revert-F1b", "C01", SC, "        return self._info_cls(\n            rounds=self._rounds,", "        return SHA256CryptInfo(\n            rounds=self._rounds,", "C01.b", "revert of fix d13c2f8")

# ---- C05
C("c05-revert-F5", "C05", UH, '        if isinstance(secret, str):\n            # NOTE: truncate_size is measured in bytes, not characters\n            secret = secret.encode("utf-8")\n', "", "C05.a", "revert of the F5 fix")
C("c05-crypt16-order", "C05", "passlib/handlers/des_crypt.py", '        if isinstance(secret, str):\n            secret = secret.encode("utf-8")\n\n        # check for truncation (during .hash() calls only)\n        if self.use_defaults:\n            self._check_truncate_policy(secret)\n\n        # parse salt value', '        # check for truncation (during .hash() calls only)\n        if self.use_defaults:\n            self._check_truncate_policy(secret)\n        if isinstance(secret, str):\n            secret = secret.encode("utf-8")\n\n        # parse salt value', "C05", "placeholder")
CONTROLS.pop()
C("c05-validate-drop", "C05", UH, "        # NOTE: at this point, 'kwds' should just contain context_kwds subset\n        validate_secret(secret)\n", "        # NOTE: at this point, 'kwds' should just contain context_kwds subset\n", "C05.b")
C("c05-validate-verify", "C05", "passlib/handlers/mssql.py", "        # XXX: add 'full' just to verify both checksums?\n        uh.validate_secret(secret)\n", "        # XXX: add 'full' just to verify both checksums?\n", "C05.b")
C("c05-validate-branch", "C05", "passlib/handlers/misc.py", "            uh.validate_secret(secret)\n            return to_native_str(config, param=\"config\")", "            return to_native_str(config, param=\"config\")", "C05.b")
C("c05-size-ge", "C05", UH, "    if len(secret) > MAX_PASSWORD_SIZE:", "    if len(secret) >= MAX_PASSWORD_SIZE:", "C05.b")
C("c05-nul-sha1", "C05", "passlib/handlers/sha1_crypt.py", "        if _BNULL in secret:\n            raise uh.exc.NullPasswordError(self)\n", "", "C05.c")
C("c05-nul-bcrypt", "C05", BC, "        if _BNULL in secret:\n            raise uh.exc.NullPasswordError(cls)\n", "", "C05.c")
C("c05-verify-raises", "C05", "passlib/handlers/des_crypt.py", "        # check for truncation (during .hash() calls only)\n        if self.use_defaults:\n            self._check_truncate_policy(secret)\n\n        return self._calc_checksum_backend(secret)", "        self._check_truncate_policy(secret)\n\n        return self._calc_checksum_backend(secret)", "C05.d")
C("c05-limit-ge", "C05", UH, "if cls.truncate_error and len(secret) > cls.truncate_size:", "if cls.truncate_error and len(secret) >= cls.truncate_size:", "C05.d")
C("c05-trunc-size", "C05", "passlib/handlers/des_crypt.py", "    truncate_size = 8\n", "    truncate_size = 9\n", "C05.e")
C("c05-cisco-chars", "C05", "passlib/handlers/cisco.py", '        if isinstance(secret, str):\n            secret = secret.encode("utf-8")\n\n        #\n        # check if password too large', '        #\n        # check if password too large', "C05.a", "encode dropped before the length test")

# ---- C08
C("c08-revert-phpass", "C08", "passlib/handlers/phpass.py", '        if not data:\n            raise uh.exc.MalformedHashError(cls, "missing rounds field")\n', "", "C08.a", "revert of fix be5cc4b")
C("c08-revert-bcrypt28", "C08", BC, "            hash.startswith(IDENT_2A)\n            and len(hash) > 28\n            and hash[28] not in cls.final_salt_chars", "            hash.startswith(IDENT_2A)\n            and hash[28] not in cls.final_salt_chars", "C08.a", "revert of fix 727e7f0")
C("c08-revert-scrypt-assert", "C08", "passlib/handlers/scrypt.py", '            if not (\n                nstr.startswith("ln=") and bstr.startswith("r=") and pstr.startswith("p=")\n            ):\n                raise uh.exc.MalformedHashError(cls, "malformed settings field")\n', '            assert nstr.startswith("ln=")\n            assert bstr.startswith("r=")\n            assert pstr.startswith("p=")\n', "C08.a", "revert of fix 2f6fb4d")
C("c08-revert-phc", "C08", "libpass/inspect/phc/_phc.py", "    try:\n        parsed_params = {\n            name: param.type(params[param.param.name])\n            for name, param in definition_info.parameters.items()\n        }\n    except (KeyError, ValueError):\n        # missing or malformed parameter -- not a hash of this definition\n        return None\n", "    parsed_params = {\n        name: param.type(params[param.param.name])\n        for name, param in definition_info.parameters.items()\n    }\n", "C08.a", "revert of fix 6f94928")
C("c08-revert-F9", "C08", UH, '    def needs_update(self, hash, **kwds):\n        hash = to_unicode(hash, "ascii", "hash")\n', "    def needs_update(self, hash, **kwds):\n", "C08.b", "revert of fix 5591026")
C("c08-mc3-index", "C08", UH, "    if len(parts) == 3:\n        rounds, salt, chk = parts\n    elif len(parts) == 2:\n        rounds, salt = parts\n        chk = None\n    else:\n        raise exc.MalformedHashError(handler)\n", "    rounds, salt = parts[0], parts[1]\n    chk = parts[2] if len(parts) == 3 else None\n", "C08.a")
C("c08-mssql-index", "C08", "passlib/handlers/des_crypt.py", "        salt, chk = hash[:2], hash[2:]\n        return cls(salt=salt, checksum=chk or None)", "        salt, chk = hash[0] + hash[1], hash[2:]\n        return cls(salt=salt, checksum=chk or None)", "C08.a")
C("c08-keyerror", "C08", "passlib/utils/binary.py", "        except KeyError as err:\n            raise ValueError(f\"invalid character: {err.args[0]!r}\")", "        except IndexError as err:\n            raise ValueError(f\"invalid character: {err.args[0]!r}\")", "C08.c")
C("c08-identify-exc", "C08", UH, "            cls.from_string(hash)\n            return True\n        except ValueError:\n            return False", "            cls.from_string(hash)\n            return True\n        except TypeError:\n            return False", "C08.c")
C("c08-chk-size", "C08", UH, "        if cc and len(checksum) != cc:\n            raise exc.ChecksumSizeError(self, raw=raw)\n", "", "C08.d")
C("c08-partial-compare", "C08", UH, "        return consteq(self._calc_checksum(secret), chk)", "        return consteq(self._calc_checksum(secret)[:8], chk[:8])", "C08.d")
C("c08-fshp-assert", "C08", "passlib/handlers/sun_md5_crypt.py", "class sun_md5_crypt(", "class sun_md5_crypt(", "C08", "noop placeholder")
CONTROLS.pop()

# ---- C09
SCR = "passlib/handlers/scrypt.py"
C("c09-revert-F10", "C09", SCR, "            _scrypt.validate(\n                1 << subcls.default_rounds, subcls.block_size, subcls.parallelism\n            )", "            _scrypt.validate(1 << cls.default_rounds, cls.block_size, cls.parallelism)", "C09.c", "revert of fix 02ad664")
C("c09-revert-F4", "C09", "passlib/handlers/des_crypt.py", "        rounds |= 1\n        # don't step past the configured upper bound (the hash would be flagged\n        # by needs_update() right away); use the odd value below it instead.\n        mx = cls.max_desired_rounds or cls.max_rounds\n        if mx and rounds > mx and rounds - 2 >= max(cls.min_desired_rounds or 0, cls.min_rounds):\n            rounds -= 2\n        return rounds\n", "        return rounds | 1\n", "C09.g", "revert of fix 6d7c1cc")
C("c09-write-cls", "C09", UH, "                subcls.truncate_error = truncate_error", "                cls.truncate_error = truncate_error", "C09.b")
C("c09-return-cls", "C09", SCR, "            ) from None\n\n        return subcls", "            ) from None\n\n        return cls", "C09.a")
C("c09-no-norm", "C09", UH, "            subcls.parallelism = subcls._norm_parallelism(\n                parallelism, relaxed=kwds.get(\"relaxed\")\n            )", "            subcls.parallelism = parallelism", "C09.d")
C("c09-clamp-min", "C09", UH, "            warn(msg, exc.PasslibHashWarning)\n            value = min\n", "            warn(msg, exc.PasslibHashWarning)\n", "C09.e")
C("c09-clamp-max-strict", "C09", UH, "        if relaxed:\n            warn(msg, exc.PasslibHashWarning)\n            value = max\n        else:\n            raise ValueError(msg)", "        warn(msg, exc.PasslibHashWarning)\n        value = max", "C09.e")
C("c09-setattr-guard", "C09", UH, "        if attr in self._proxy_attrs and self._derived_from:", "        if attr in self._proxy_attrs:", "C09.f")
C("c09-vary-noclip", "C09", UH, "        return cls._clip_to_desired_rounds(lower), cls._clip_to_desired_rounds(upper)", "        return cls._clip_to_desired_rounds(lower), upper", "C09.g")
C("c09-noreclip", "C09", UH, "        if subcls.default_rounds is not None:\n            subcls.default_rounds = subcls._clip_to_desired_rounds(\n                subcls.default_rounds\n            )\n", "", "C09.g")
C("c09-typo-attr", "C09", "passlib/handlers/fshp.py", "            subcls.default_variant = cls._norm_variant(variant)", "            subcls.default_variants = cls._norm_variant(variant)", "C09.h")
C("c09-kwds-dropped", "C09", SCR, "    def using(cls, block_size=None, **kwds):\n        subcls = super().using(**kwds)", "    def using(cls, block_size=None, **kwds):\n        subcls = super().using()", "C09.a")
C("c09-norm-rounds-swap", "C09", UH, "cls, rounds, cls.min_rounds, cls.max_rounds, param=param, relaxed=relaxed", "cls, rounds, cls.max_rounds, cls.min_rounds, param=param, relaxed=relaxed", "C09.e")

# ---- C19
CTX = "passlib/context.py"
BIN = "passlib/utils/binary.py"
C("c19-revert-F16-des", "C19", "passlib/crypto/des.py", "    if CF6464 is None:", "    if PCXROT is None:", "C19.b", "revert of fix f9aa42f")
C("c19-revert-F16-bf", "C19", "passlib/crypto/_blowfish/base.py", "        if BLOWFISH_S is None:", "        if BLOWFISH_P is None:", "C19.b", "revert of fix f9aa42f")
C("c19-nolock-b64", "C19", BIN, "        with _lazy_init_lock:\n            opts = self._lazy_opts", "        if True:\n            opts = self._lazy_opts", "C19.a")
C("c19-early-clear-b64", "C19", BIN, "            args, kwds = opts\n            super().__init__(*args, **kwds)\n            # NOTE: only flag the engine as ready once it's fully initialized\n            self._lazy_opts = None\n", "            args, kwds = opts\n            self._lazy_opts = None\n            super().__init__(*args, **kwds)\n", "C19.a")
C("c19-self-call-b64", "C19", BIN, "            LazyBase64Engine._lazy_init(self)", "            self._lazy_init()", "C19.a")
C("c19-norecheck-ctx", "C19", CTX, "            kwds = self._lazy_kwds\n            if kwds is None:\n                # another thread finished the job while we waited for the lock,\n                # or we were re-entered from CryptContext.__init__() below.\n                return\n", "            kwds = self._lazy_kwds\n", "C19.a")
C("c19-busy-early", "C19", CTX, "            self._lazy_busy = True\n            self._lazy_kwds = None\n", "            self._lazy_kwds = None\n", "C19.a")
C("c19-cls-write", "C19", "passlib/handlers/sha2_crypt.py", "        return _raw_sha2_crypt(secret, self.salt, self.rounds, self._cdb_use_512)", "        type(self)._last_rounds = self.rounds\n        return _raw_sha2_crypt(secret, self.salt, self.rounds, self._cdb_use_512)", "C19.d")
C("c19-publish-early", "C19", UH, "            if not dryrun:\n                cls.__backend = name\n            return name", "            return name", "C19.c", "placeholder")
CONTROLS.pop()
C("c19-publish-order", "C19", UH, "            try:\n                cls._pending_backend = name\n                cls._pending_dry_run = dryrun\n                cls._set_backend(name, dryrun)\n", "            try:\n                cls._pending_backend = name\n                cls._pending_dry_run = dryrun\n                if not dryrun:\n                    cls.__backend = name\n                cls._set_backend(name, dryrun)\n", "C19.c")
C("c19-registry-idem", "C19", "passlib/registry.py", "        if other is handler:\n            logging.debug(\"same %r handler already registered: %r\", name, handler)\n            return\n", "", "C19.e")

# ---- C17
AP = "passlib/apache.py"
C("c17-revert-F14", "C17", AP, '    schemes.remove("plaintext")\n    schemes.append("plaintext")\n', "", "C17.b", "revert of fix 571a5c9")
C("c17-hosts-disabled-first", "C17", "passlib/hosts.py", 'freebsd_context = LazyCryptContext(\n    ["bcrypt", "md5_crypt", "bsd_nthash", "des_crypt", "unix_disabled"]\n)', 'freebsd_context = LazyCryptContext(\n    ["bcrypt", "md5_crypt", "bsd_nthash", "unix_disabled", "des_crypt"]\n)', "C17", "placeholder: not a shadow")
CONTROLS.pop()
C("c17-registry-name", "C17", "passlib/registry.py", '    ldap_md5="passlib.handlers.ldap_digests",', '    ldap_md5="passlib.handlers.roundup",', "C17")
C("c17-handler-name", "C17", "passlib/handlers/mysql.py", '    name = "mysql41"', '    name = "mysql_41"', "C17.a")
C("c17-django-default", "C17", "passlib/ext/django/utils.py", "default = django_pbkdf2_sha256\n", "default = django_pbkdf2_sha512\n", "C17.c")
C("c17-regex-widen", "C17", "passlib/handlers/des_crypt.py", '        (?P<salt>[./a-z0-9]{2})\n        (?P<chk>[./a-z0-9]{11})?\n        $""",\n        re.VERBOSE | re.IGNORECASE,\n    )\n\n    @classmethod\n    def from_string(cls, hash):\n        hash = to_unicode(hash, "ascii", "hash")\n        salt, chk = hash[:2], hash[2:]', '        (?P<salt>[./a-z0-9$]{2})\n        (?P<chk>[./a-z0-9$]{11})?\n        """,\n        re.VERBOSE | re.IGNORECASE,\n    )\n\n    @classmethod\n    def from_string(cls, hash):\n        hash = to_unicode(hash, "ascii", "hash")\n        salt, chk = hash[:2], hash[2:]', "C17.b", "des_crypt regex loses its end anchor and accepts '$': shadows later schemes in hosts presets")
C("c17-roundup-order", "C17", "passlib/apps.py", '    "ldap_des_crypt",\n    "roundup_plaintext",\n]', '    "roundup_plaintext",\n    "ldap_des_crypt",\n]', "C17", "no shadow: different prefixes")
CONTROLS.pop()
C("c17-preset-unknown", "C17", "passlib/apps.py", 'mysql3_context = LazyCryptContext(["mysql323"])', 'mysql3_context = LazyCryptContext(["mysql_323"])', "C17")

# ---- C16
C("c16-revert-F13", "C16", AP, "        if not existing and (_RECORD, key) not in self._source:", "        if not existing:", "C16.b", "revert of fix a347b9e")
C("c16-no-autosave", "C16", AP, "            del self._records[self._encode_user(user)]\n        except KeyError:\n            return False\n        self._autosave()\n        return True", "            del self._records[self._encode_user(user)]\n        except KeyError:\n            return False\n        return True", "C16.d")
C("c16-raw-key", "C16", AP, "        user = self._encode_user(user)\n        existing = self._set_record(user, hash)", "        existing = self._set_record(user, hash)", "C16.c")
C("c16-invalid-chars", "C16", AP, '_INVALID_FIELD_CHARS = b":\\n\\r\\t\\x00"', '_INVALID_FIELD_CHARS = b"\\n\\r\\t\\x00"', "C16.c")
C("c16-render-order", "C16", AP, 'return render_bytes("%s:%s:%s\\n", user, realm, hash)', 'return render_bytes("%s:%s:%s\\n", realm, user, hash)', "C16.e")
C("c16-realm-filter", "C16", AP, "        keys = [key for key in records if key[1] == realm]", "        keys = [key for key in records if key[0] == realm]", "C16.h")
C("c16-dup-overwrite", "C16", AP, "                skipped += line\n                continue\n\n            # flush buffer of skipped whitespace lines", "                skipped += line\n\n            # flush buffer of skipped whitespace lines", "C16.f")
C("c16-writer", "C16", AP, "        realm = self._encode_realm(realm)\n        return [self._decode_field(key[0]) for key in self._records if key[1] == realm]", "        realm = self._encode_realm(realm)\n        self._records.pop((b'', realm), None)\n        return [self._decode_field(key[0]) for key in self._records if key[1] == realm]", "C16.a")
C("c16-verify-roles", "C16", AP, "return htdigest.verify(password, hash, user, realm, encoding=self.encoding)", "return htdigest.verify(password, hash, realm, user, encoding=self.encoding)", "C16.e")
C("c16-shim", "C16", AP, "        if hash is _UNSET:\n            # called w/ two args - (user, hash), use default realm\n            realm, hash = None, realm", "        if hash is _UNSET:\n            # called w/ two args - (user, hash), use default realm\n            realm, hash = realm, None", "C16.g")
C("c16-mtime", "C16", AP, "            self.save(self._path)\n            self._mtime = os.path.getmtime(self._path)", "            self.save(self._path)", "C16.d")

# ---- C10
C("c10-revert-F11", "C10", CTX, '                # NOTE: repr() is the shortest string that parses back to the same float\n                value = repr(value) if value else "0"', '                value = (f"{value:.2f}").rstrip("0") if value else "0"', "C10.d", "revert of fix 7c24aff")
C("c10-early-store", "C10", CTX, "        config = _CryptConfig(source)\n        self._config = config", "        self._get_record = None\n        config = _CryptConfig(source)\n        self._config = config", "C10.a")
C("c10-reset-early", "C10", CTX, "            tmp = source\n            source = dict(self._config.iter_config(resolve=True))", "            tmp = source\n            self._reset_dummy_verify()\n            source = dict(self._config.iter_config(resolve=True))", "C10.a")
C("c10-no-rebind", "C10", CTX, "        self._get_record = config.get_record\n", "", "C10.a")
C("c10-no-resolve", "C10", CTX, "            source = dict(self._config.iter_config(resolve=True))\n            source.update(tmp)", "            source = dict(self._config.iter_config())\n            source.update(tmp)", "C10.a")
C("c10-strip-switch", "C10", CTX, "        if config.context_kwds:\n            # (re-)enable method for this instance (in case ELSE clause below ran last load).\n            self.__dict__.pop(\"_strip_unused_context_kwds\", None)\n        else:", "        if not config.context_kwds:", "C10.a", "placeholder")
CONTROLS.pop()
C("c10-foreign-writer", "C10", CTX, "    def _reset_dummy_verify(self):", "    def _drop(self):\n        self._config = None\n\n    def _reset_dummy_verify(self):", "C10.b")
C("c10-share-list", "C10", CTX, "                    if isinstance(value, list):\n                        value = list(value)\n", "", "C10.c")
C("c10-parse-context", "C10", CTX, '        if scheme == "context":\n            scheme = None', '        if scheme == "all":\n            scheme = None', "C10.d")
C("c10-percent", "C10", CTX, '        return value.replace("%", "%%")', "        return value", "C10.d")
C("c10-update-mutates", "C10", CTX, "            tmp = source\n            source = dict(self._config.iter_config(resolve=True))\n            source.update(tmp)", "            tmp = source\n            source = self._config._source\n            source.update(tmp)", "C10.a")

# ---- C04
DES = "passlib/handlers/des_crypt.py"
C("c04-revert-F4", "C04", DES, "        rounds |= 1\n        # don't step past the configured upper bound (the hash would be flagged\n        # by needs_update() right away); use the odd value below it instead.\n        mx = cls.max_desired_rounds or cls.max_rounds\n        if mx and rounds > mx and rounds - 2 >= max(cls.min_desired_rounds or 0, cls.min_rounds):\n            rounds -= 2\n        return rounds\n", "        return rounds | 1\n", "C04.d", "revert of fix 6d7c1cc")
C("c04-category-dropped", "C04", CTX, "            return True, self.hash(secret, category=category, **kwds)", "            return True, self.hash(secret, **kwds)", "C04.b")
C("c04-pred-differs", "C04", CTX, "        return record.deprecated or record.needs_update(hash, secret=secret)", "        return record.needs_update(hash, secret=secret)", "C04.b")
C("c04-last-match", "C04", CTX, "            if record.identify(hash):\n                return record\n", "            if record.identify(hash):\n                found = record\n", "C04.a")
C("c04-flag-ge", "C04", UH, "        if max_desired_rounds and self.rounds > max_desired_rounds:\n            return True", "        if max_desired_rounds and self.rounds >= max_desired_rounds:\n            return True", "C04.c")
C("c04-overlay-order", "C04", CTX, "        other = get_optionmap(scheme, None)\n        kwds.update(other)", "        other = get_optionmap(scheme, None)\n        other = dict(other, **kwds)\n        kwds.update(other)", "C04.e", "placeholder")
CONTROLS.pop()
C("c04-expand-settings", "C04", CTX, "            setting_kwds += uh.HasRounds.using_rounds_kwds", "            setting_kwds = uh.HasRounds.using_rounds_kwds", "C04.e")
C("c04-auto", "C04", CTX, "                return scheme != self.default_scheme(cat)", "                return scheme != self.default_scheme(None)", "C04.e")
C("c04-libpass-cost", "C04", "libpass/context.py", "        return all(not scheme.identify(hash) for scheme in schemes)", "        return all(scheme.needs_update(hash) for scheme in schemes)", "C04.f")
C("c04-libpass-default", "C04", "libpass/context.py", "        return self._schemes[0]", "        return self._schemes[-1]", "C04.f")

# ---- C13 / C14 / C15 / C18
TOT = "passlib/totp.py"
DIG = "passlib/crypto/digest.py"
MISC = "passlib/handlers/misc.py"
C("c13-offset-mask", "C13", TOT, "offset = digest[-1] & 0xF", "offset = digest[-1] & 0x7", "C13.a")
C("c13-31bit", "C13", TOT, "& 0x7FFFFFFF", "& 0xFFFFFFFF", "C13.a")
C("c13-pack", "C13", TOT, '_pack_uint64 = struct.Struct(">Q").pack', '_pack_uint64 = struct.Struct("<Q").pack', "C13.a")
C("c13-counter", "C13", TOT, "        return time // self.period", "        return (time + self.period - 1) // self.period", "C13.a")
C("c13-utc", "C13", TOT, "return calendar.timegm(time.utctimetuple())", "return calendar.timegm(time.timetuple())", "C13.b")
C("c13-hmac-ge", "C13", DIG, "    if klen > block_size:\n        key = const(key).digest()", "    if klen >= block_size:\n        key = const(key).digest()", "C13.d")
C("c13-hmac-nopad", "C13", DIG, "        key = const(key).digest()\n        klen = digest_size\n", "        key = const(key).digest()\n", "C13.d")
C("c13-hmac-swap", "C13", DIG, "_inner_copy = const(key.translate(_TRANS_36)).copy\n    _outer_copy = const(key.translate(_TRANS_5C)).copy", "_inner_copy = const(key.translate(_TRANS_5C)).copy\n    _outer_copy = const(key.translate(_TRANS_36)).copy", "C13.d")
C("c13-digits-range", "C13", TOT, "if digits < 6 or digits > 10:", "if digits < 6 or digits > 11:", "C13.a")
C("c14-end-excl", "C14", TOT, "end = self._time_to_counter(client_time + window) + 1", "end = self._time_to_counter(client_time + window)", "C14.a")
C("c14-start", "C14", TOT, "start = max(last_counter, self._time_to_counter(client_time - window))", "start = self._time_to_counter(client_time - window)", "C14.a")
C("c14-used", "C14", TOT, "        if counter == last_counter:\n            raise UsedTokenError(expire_time=(last_counter + 1) * self.period)\n", "", "C14.a")
C("c14-falsy", "C14", TOT, "        if last_counter is None:\n            last_counter = -1", "        if not last_counter:\n            last_counter = -1", "C14")
C("c14-scan-le", "C14", TOT, "        while counter < end:", "        while counter <= end:", "C14.b")
C("c14-skew", "C14", TOT, "client_time = time + skew", "client_time = time - skew", "C14.a")
C("c14-len", "C14", TOT, "        if len(token) != digits:", "        if len(token) > digits:", "C14.b")
C("c15-elif", "C15", TOT, "        if self.period != 30:\n            state[\"period\"] = self.period", "        elif self.period != 30:\n            state[\"period\"] = self.period", "C15.a")
C("c15-double-unquote", "C15", TOT, "            params[k] = v\n", "            params[k] = unquote(v)\n", "C15.c")
C("c15-quote-safe", "C15", TOT, '"{}={}".format(key, quote(value, ""))', '"{}={}".format(key, quote(value))', "C15.c")
C("c15-key-name", "C15", TOT, '            state["period"] = self.period', '            state["step"] = self.period', "C15.a")
C("c15-wallet-key", "C15", TOT, "s=b32encode(salt), k=b32encode(ckey)", "s=b32encode(ckey), k=b32encode(salt)", "C15.d")
C("c15-uri-param", "C15", TOT, 'args.append(("digits", str(self.digits)))', 'args.append(("digit", str(self.digits)))', "C15.c")
C("c18-verify-true", "C18", MISC, "            raise uh.exc.InvalidHashError(cls)\n        return False\n", "            raise uh.exc.InvalidHashError(cls)\n        return not secret\n", "C18.a")
C("c18-none-verify", "C18", CTX, "        if hash is None:\n            # convenience feature -- let apps pass in hash=None when user\n            # isn't found / has no hash; useful because it invokes dummy_verify()\n            self.dummy_verify()\n            return False\n", "        if hash is None:\n            return False\n", "C18.b")
C("c18-dummy-ret", "C18", CTX, "        self.verify(self._dummy_secret, self._dummy_hash)\n        return False", "        return self.verify(self._dummy_secret, self._dummy_hash)", "C18.b")
C("c18-enable-strip", "C18", MISC, "                orig = hash[len(prefix) :]\n                if orig:\n                    return orig\n                raise ValueError(\"cannot restore original hash\")", "                orig = hash[len(prefix) :]\n                return orig", "C18.c")
C("c18-disable-nest", "C18", MISC, "            if cls.identify(hash):\n                # extract original hash, so that we normalize marker\n                hash = cls.enable(hash)\n", "", "C18.c")
C("c18-ctx-enable", "C18", CTX, "        if record.is_disabled:\n            # XXX: should we throw error if result can't be identified by context?\n            return record.enable(hash)\n        # hash wasn't a disabled hash, so return unchanged\n        return hash", "        return record.enable(hash)", "C18.c")

# ---- C12
C("c12-enc-mask", "C12", BIN, "            yield ((v2 & 0x0F) << 2) | (v1 >> 6)\n            yield ((v3 & 0x03) << 4) | (v2 >> 4)\n            yield v3 >> 2\n            idx += 1", "            yield ((v2 & 0x0F) << 2) | (v1 >> 6)\n            yield ((v3 & 0x07) << 4) | (v2 >> 4)\n            yield v3 >> 2\n            idx += 1", "C12.a")
C("c12-dec-shift", "C12", BIN, "            yield (v3 >> 4) | (v4 << 2)", "            yield (v3 >> 4) | (v4 << 3)", "C12.a")
C("c12-tail-big", "C12", BIN, "                yield (v1 & 0x03) << 4\n", "                yield (v1 & 0x03) << 2\n", "C12.a")
C("c12-padmask", "C12", BIN, "        bits = 3 if self.big else (3 << 4)", "        bits = 3 if self.big else (3 << 2)", "C12.b")
C("c12-int30", "C12", BIN, "if value < 0 or value > 0x3FFFFFFF:", "if value < 0 or value > 0x3FFFFFFFF:", "C12.d")
C("c12-int12-raw", "C12", BIN, "raw = [value & 0x3F, (value >> 6) & 0x3F]", "raw = [value & 0x3F, (value >> 8) & 0x3F]", "C12.d")
C("c12-int24-dec", "C12", BIN, "                + (decode(source[2]) << 12)\n                + (decode(source[3]) << 18)\n            )", "                + (decode(source[2]) << 12)\n                + (decode(source[3]) << 16)\n            )", "C12.d")
C("c12-alphabet", "C12", BIN, 'HASH64_CHARS = "./0123456789ABCDEFGHIJKLMNOPQRSTUVWXYZabcdefghijklmnopqrstuvwxyz"', 'HASH64_CHARS = "./0123456789ABCDEFGHIJKLMNOPQRSTUVWXZYabcdefghijklmnopqrstuvwxyz"', "C12.e")
C("c12-pad-table", "C12", BIN, "    elif off == 2:\n        data += _BASE64_PAD2\n    elif off == 3:\n        data += _BASE64_PAD1", "    elif off == 2:\n        data += _BASE64_PAD1\n    elif off == 3:\n        data += _BASE64_PAD2", "C12.f")
C("c12-ab64-str", "C12", BIN, '    return b64s_decode(data.replace(b".", b"+"))', '    return b64s_decode(data.replace(b"+", b"."))', "C12.f")
C("c12-b32-bytes", "C12", BIN, '    if isinstance(source, str):\n        source = source.encode("ascii")\n    source = source.translate(_b32_translate)', '    if isinstance(source, str):\n        source = source.encode("ascii").translate(_b32_translate)', "C12.f")
C("c12-libpass-copy", "C12", "libpass/_utils/binary.py", "        yield ((v2 & 0x0F) << 2) | (v1 >> 6)\n        yield ((v3 & 0x03) << 4) | (v2 >> 4)\n        yield v3 >> 2\n        idx += 1", "        yield ((v2 & 0x0F) << 2) | (v1 >> 6)\n        yield ((v3 & 0x03) << 4) | (v2 >> 4)\n        yield v3 >> 3\n        idx += 1", "C12")
C("c12-endian-swap", "C12", BIN, "            self._encode_bytes = self._encode_bytes_big\n            self._decode_bytes = self._decode_bytes_big", "            self._encode_bytes = self._encode_bytes_big\n            self._decode_bytes = self._decode_bytes_little", "C12.c")
C("c12-bcrypt64", "C12", BIN, "bcrypt64 = LazyBase64Engine(BCRYPT_CHARS, big=True)", "bcrypt64 = LazyBase64Engine(BCRYPT_CHARS)", "C12.e")

# ---- C11
BFB = "passlib/crypto/_blowfish/base.py"
MD4F = "passlib/crypto/_md4.py"
SALF = "passlib/crypto/scrypt/_salsa.py"
DESF = "passlib/crypto/des.py"
C("c11-bf-P", "C11", BFB, "0x243F6A88", "0x243F6A89", "C11.a")
C("c11-bf-S", "C11", BFB, "0x3AC372E6", "0x3AC372E7", "C11.a")
C("c11-bf-cdata", "C11", "passlib/crypto/_blowfish/__init__.py", "0x4F727068", "0x4F727069", "C11.a")
C("c11-bf-64", "C11", "passlib/crypto/_blowfish/__init__.py", "engine.repeat_encipher(data[i], data[i + 1], 64)", "engine.repeat_encipher(data[i], data[i + 1], 63)", "C11.a")
C("c11-md4-shift", "C11", MD4F, "        [3, 0, 1, 2, 5, 7],\n        [2, 3, 0, 1, 6, 11],", "        [3, 0, 1, 2, 5, 7],\n        [2, 3, 0, 1, 6, 13],", "C11.c")
C("c11-md4-const", "C11", MD4F, "0x5A827999", "0x5A827998", "C11.c")
C("c11-md4-copy", "C11", MD4F, "        other._count = self._count\n", "", "C11.c")
C("c11-md4-pad", "C11", MD4F, "((119 - len(buf)) % 64)", "((120 - len(buf)) % 64)", "C11.c")
C("c11-md4-restore", "C11", MD4F, "        out = struct.pack(\"<4I\", *self._state)\n        self._state = orig\n", "        out = struct.pack(\"<4I\", *self._state)\n", "C11.c")
C("c11-salsa-rot", "C11", SALF, "        v15 ^= ((t & 0x00003FFF) << 18) | (t >> 14)\n        i += 1", "        v15 ^= ((t & 0x00003FFF) << 18) | (t >> 13)\n        i += 1", "C11.d")
C("c11-salsa-rounds", "C11", SALF, "    while i < 4:", "    while i < 5:", "C11.d")
C("c11-scrypt-sizes", "C11", "passlib/crypto/scrypt/_builtin.py", "self.bmix_half_len = r << 4", "self.bmix_half_len = r << 3", "C11.d")
C("c11-scrypt-validate", "C11", "passlib/crypto/scrypt/__init__.py", "    if n < 2 or n & (n - 1):", "    if n < 2 or n & (n + 1):", "C11.d")
C("c11-des-lane", "C11", DESF, "            k = ((L >> 32) ^ L) & salt", "            k = ((L >> 31) ^ L) & salt", "C11.b")
C("c11-des-salt", "C11", DESF, "        | ((salt & 0x000FC0) << 12)", "        | ((salt & 0x000FC0) << 11)", "C11.b")
C("c11-des-expand", "C11", DESF, "_EXPAND_ITER = range(49, -7, -7)", "_EXPAND_ITER = range(49, 0, -7)", "C11.b")
C("c11-sasl-raw", "C11", U, "    if is_ral_char(data[0]):\n        if not is_ral_char(data[-1]):", "    if is_ral_char(source[0]):\n        if not is_ral_char(source[-1]):", "C11.e")
C("c11-sasl-table", "C11", U, '        (stringprep.in_table_c3, "private use characters forbidden in "),\n', "", "C11.e")
C("c11-hmac", "C11", DIG, "    if klen > block_size:\n        key = const(key).digest()", "    if klen >= block_size:\n        key = const(key).digest()", "C11.f")
C("c11-pbkdf1", "C11", DIG, "    for _ in range(rounds):\n        block = const(block).digest()", "    for _ in range(rounds - 1):\n        block = const(block).digest()", "C11.f")

# ---- C02
S2 = "passlib/handlers/sha2_crypt.py"
MD5C = "passlib/handlers/md5_crypt.py"
C("c02-offsets", "C02", S2, "    (5, 0),\n    (5, 3),\n    (1, 3),\n    (5, 1),\n    (4, 3),", "    (5, 0),\n    (5, 3),\n    (1, 3),\n    (5, 1),\n    (4, 1),", "C02.a")
C("c02-transpose", "C02", S2, "_256_transpose_map = (\n    20,\n    10,\n    0,", "_256_transpose_map = (\n    20,\n    0,\n    10,", "C02.a")
C("c02-sha-ploop", "C02", S2, "        i = pwd_len - 1\n", "        i = pwd_len\n", "C02.c")
C("c02-sha-libpass", "C02", SC, "        i = secret_len - 1\n", "        i = secret_len\n", "C02.c")
C("c02-sha-96", "C02", S2, "    if pwd_len < 96:", "    if pwd_len < 64:", "C02.c")
C("c02-sha-perms", "C02", S2, "perms = [dp, dp_dp, dp_ds, dp_ds + dp, ds + dp, ds + dp_dp]", "perms = [dp, dp_dp, dp_ds, dp_ds + dp, ds + dp_dp, ds + dp]", "C02.c")
C("c02-md5-blocks", "C02", MD5C, "    blocks = 23", "    blocks = 24", "C02.d")
C("c02-md5-magic", "C02", MD5C, '_APR_MAGIC = b"$apr1$"', '_APR_MAGIC = b"$apr$"', "C02.b")
C("c02-md5-actx", "C02", MD5C, "a_ctx = md5(pwd + magic + salt)", "a_ctx = md5(pwd + salt + magic)", "C02.d")
C("c02-sha1-seed", "C02", "passlib/handlers/sha1_crypt.py", 'result = (f"{self.salt}$sha1${rounds}").encode("ascii")', 'result = (f"{self.salt}$sha1${rounds - 1}").encode("ascii")', "C02.d")
C("c02-des-25", "C02", DES, "result = des_encrypt_int_block(key_value, 0, salt_value, 25)", "result = des_encrypt_int_block(key_value, 0, salt_value, 24)", "C02.d")
C("c02-bsdi-fold", "C02", DES, "    while idx < end:\n        next = idx + 8\n        tmp_value = _crypt_secret_to_key(secret[idx:next])", "    while idx + 8 <= end:\n        next = idx + 8\n        tmp_value = _crypt_secret_to_key(secret[idx:next])", "C02.d")
C("c02-mysql-seed", "C02", "passlib/handlers/mysql.py", "nr2 = 0x12345671", "nr2 = 0x12345678", "C02.b")
C("c02-phpass-order", "C02", "passlib/handlers/phpass.py", "result = md5(result + secret).digest()", "result = md5(secret + result).digest()", "C02.d")
C("c02-postgres-order", "C02", "passlib/handlers/postgres.py", "return md5(secret + user).hexdigest()", "return md5(user + secret).hexdigest()", "C02.d")
C("c02-msdcc2-rounds", "C02", "passlib/handlers/windows.py", 'return pbkdf2_hmac("sha1", tmp, user, 10240, 16)', 'return pbkdf2_hmac("sha1", tmp, user, 10000, 16)', "C02.b")
C("c02-cisco-key", "C02", "passlib/handlers/cisco.py", "ncxv9873254k", "ncxv9872354k", "C02.b")
C("c02-bcrypt-sha256-v2", "C02", BC, 'digest = compile_hmac("sha256", salt.encode("ascii"))(secret)', 'digest = compile_hmac("sha256", secret)(salt.encode("ascii"))', "C02.d")
C("c02-crypt16-second", "C02", DES, "key2 = _crypt_secret_to_key(secret[8:16])", "key2 = _crypt_secret_to_key(secret[7:15])", "C02.d")
C("c02-fshp-swap", "C02", "passlib/handlers/fshp.py", "            secret=self.salt,\n            salt=secret,", "            secret=secret,\n            salt=self.salt,", "C02.d")
C("c01-bsdi-prefix", "C01", DES, "    while idx < end:\n        next = idx + 8\n        tmp_value = _crypt_secret_to_key(secret[idx:next])", "    while idx + 8 <= end:\n        next = idx + 8\n        tmp_value = _crypt_secret_to_key(secret[idx:next])", "C01.g")
C("c01-htdigest-enc", "C01", "passlib/handlers/digests.py", "            secret = secret.encode(encoding)", '            secret = secret.encode("utf-8")', "C01.g")
