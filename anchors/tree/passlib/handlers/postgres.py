"""MD5-based algorithm used by Postgres for pg_shadow table"""

from hashlib import md5

import passlib.utils.handlers as uh
from passlib.utils import to_bytes

__all__ = [
    "postgres_md5",
]


class postgres_md5(uh.HasUserContext, uh.StaticHandler):
    """This class implements the Postgres MD5 Password hash, and follows the :ref:`password-hash-api`.

    It does a single round of hashing, and relies on the username as the salt.

    The :meth:`~passlib.ifc.PasswordHash.hash`, :meth:`~passlib.ifc.PasswordHash.genhash`, and :meth:`~passlib.ifc.PasswordHash.verify` methods all require the
    following additional contextual keywords:

    :type user: str
    :param user: name of postgres user account this password is associated with.
    """

    name = "postgres_md5"
    _hash_prefix = "md5"
    checksum_chars = uh.HEX_CHARS
    checksum_size = 32

    def _calc_checksum(self, secret):
        if isinstance(secret, str):
            secret = secret.encode("utf-8")
        user = to_bytes(self.user, "utf-8", param="user")
        return md5(secret + user).hexdigest()
