#!/venv/bin/python
"""Regenerate /verif/anchors/locals.json from the tree the rules were confirmed on (run deliberately, never by a check)."""
import ast, json, os, sys
sys.path.insert(0, os.path.dirname(os.path.dirname(os.path.abspath(__file__))))
os.environ["PV_NO_ALPHA"] = "1"
os.environ["PV_NO_EQUIV"] = "1"
from pv.model import Model
from pv import alpha
m = Model(sys.argv[1] if len(sys.argv) > 1 else None)
out = {name: alpha.anchors_for(u.tree) for name, u in sorted(m.units.items())}
out = {k: {f: v for f, v in d.items() if v} for k, d in out.items()}
json.dump(out, open(alpha.ANCHORS, "w"), indent=0, sort_keys=True)
print("functions with locals:", sum(len(d) for d in out.values()), "locals:", sum(len(v) for d in out.values() for v in d.values()))

# reference tree for pv/equiv.py: the sources the rules were confirmed on
import shutil
ref = os.path.join(os.path.dirname(alpha.ANCHORS), "tree")
shutil.rmtree(ref, ignore_errors=True)
for pkg in ("passlib", "libpass"):
    shutil.copytree(os.path.join(m.root, pkg), os.path.join(ref, pkg), ignore=shutil.ignore_patterns("__pycache__", "*.pyc"))
print("reference tree:", sum(len(f) for _, _, f in os.walk(ref)), "files")
