"""Per-property claims.  A property appears either in CLAIMED or in NOT_APPLICABLE."""
STATIC_NOTE = ("Trusted base: CPython's ast / re._parser and the pv engine. Import aliases, class hierarchy (C3 MRO) and constants are "
               "resolved statically; a construct the rules cannot recognise is reported as ANALYSIS-ERROR (exit 2), never as a pass or a violation. "
               "Only the structural clauses named in level_claimed.text are decided, not the behaviour over all inputs.")
CLAIMED = {
 "C06": dict(
  text="Decides structural necessary conditions of uniform generation at every site: (a) every random draw in passlib/libpass originates from "
       "passlib.utils.rng (= random.SystemRandom()), an rng parameter, secrets.*, os.urandom or bcrypt.gensalt; (b) getrandbytes/getrandstr split the "
       "drawn integer into non-overlapping digits of the declared radix (mask+1 == radix == 256 / len(charset), bits drawn == 8*count, range == "
       "letters**count, trip count == count); (c) salt/key generators pass the class's declared size and alphabet; (d) entropy->length formulas are "
       "ceil(E/log2 N) with short lengths raised; (e) 'salt' is refused as a context option before any store. Not decided: quality of the OS source, "
       "statistical uniformity of outputs.",
  note=STATIC_NOTE,
  technique="who-may-call + polynomial-normalised radix/mask/shift agreement on the extraction loops + must-precede on context option stores"),
}

CLAIMED["C01"] = dict(
  text="Decides that hash and verify paths of every shipped hasher are wired to the same format and digest function: libpass hashers render through the "
       "info class their own verify/identify parse with (and base classes never bypass a variant slot with a literal); every verify() in the tree returns "
       "only a constant-time comparison whose operands are a recomputed digest and the stored one, a delegation, or literal False for disabled / foreign "
       "hashes; GenericHandler.hash/verify/genhash and the user/encoding context plumbing have the documented dataflow; a str/bytes type-flow analysis from "
       "every registered handler's digest entry point proves the secret reaches every hash/cipher primitive as bytes, encoded as UTF-8 (or the declared "
       "encoding); PrefixWrapper wrap/unwrap are inverse and every entry point unwraps before delegating. Not decided: determinism and collision freedom "
       "of the digests, i.e. the executed round trip and the 'False for every other password' half.",
  note=STATIC_NOTE,
  technique="class-hierarchy agreement rules + interprocedural str/bytes type-flow (abstract interpretation) + return-idiom classification")
CLAIMED["C03"] = dict(
  text="Decides: every lazily bound backend global that is called is bound on some path and in its loader (def-use, whole tree); every advertised backend "
       "has a loader installing the implementation of the same name and returning True only afterwards; each OS-crypt path calls safe_crypt with the caller's "
       "secret, falls back to the builtin on None, validates prefix/length and slices exactly checksum_size characters; the secret handed to bcrypt.hashpw is "
       "bounded to 72 bytes on every path; safe_crypt maps non-UTF-8 to None, refuses NUL and calls crypt() only under its lock; backend state is written only "
       "inside set_backend's locked region and dry runs install nothing; ident dispatch chains and scrypt backend tables are exhaustive and argument orders "
       "agree. Not decided: equality of digests computed by two backends.",
  note=STATIC_NOTE,
  technique="def-use on module globals, who-may-write, sibling agreement of loaders/OS paths, symbolic length agreement (polynomial normaliser), path-bounded slice check")
CLAIMED["C05"] = dict(
  text="Decides: (a) every length compared against a truncation limit is measured on bytes (str/bytes type flow from each truncating handler's digest "
       "entry to the comparison); (b) validate_secret(secret) is called on every normally-returning path of hash/verify/genhash of all 76 registered hashers "
       "(must-call with callee summaries through the MRO); (c) every crypt()-compatible builtin and bcrypt refuse NUL before first use; (d) the truncation "
       "error is raised only when a new hash is made and with `>`; (e) declared truncate_size equals the bytes the algorithm consumes. Not decided: that "
       "exactly `limit` bytes influence the digest.",
  note=STATIC_NOTE,
  technique="str/bytes type-flow with len() hook + must-call analysis with summaries + sibling guard rule")

CLAIMED["C08"] = dict(
  text="Decides, for every parser root of all registered hashers (identify/verify/needs_update/from_string/genhash/parsehash, dynamic-dispatch helpers, "
       "PrefixWrapper, libpass inspectors and hashers): no content-dependent assert, no constant index into hash-derived data without a dominating "
       "length/truthiness guard, no table lookup keyed by hash data outside KeyError handling (taint analysis with path-sensitive guards and callee "
       "summaries); a str|bytes hash is normalised before any text operation (type flow + PrefixWrapper sibling rule); base64 decode-map lookups map "
       "KeyError to ValueError; parsed digests are size/charset-validated and verify compares the whole digest; every `raise <factory>` is a call; "
       "numeric fields reach int() only as canonical ASCII decimal text (digit tests, [0-9] groups whose DFA rejects zero padding, re-render comparison); "
       "anchored hash regexes end in \\Z or use fullmatch; base64.b64decode is strict; settings used as table keys are validated by membership; the digest is "
       "stored before digest-sensitive parse hooks run; fixed-offset parsers cut at the declared sizes. Not decided: that an altered digest differs after recomputation.",
  note=STATIC_NOTE,
  technique="interprocedural taint analysis (hash string -> exception-raising sinks) + str/bytes type flow + sibling rule")
CLAIMED["C09"] = dict(
  text="Decides for all using() definitions: a fresh subclass is created once via super().using(**kwds) and returned on every path; attribute stores target "
       "only that subclass; stored values pass a _norm_/_clip_/norm_integer/as_bool sanitiser or a dominating raising guard; no data read through the stale "
       "parent `cls` after the subclass exists except the inherit-default idiom; clamp helpers raise in strict mode and clamp in relaxed mode for both bounds; "
       "generated rounds are drawn between clipped bounds, the default is re-clipped after min/max/default are stored, generator overrides stay inside the "
       "window; every stored attribute is read outside using(); PrefixWrapper forwards writes only to a subclass it created. Not decided: numeric behaviour "
       "over all option combinations.",
  note=STATIC_NOTE,
  technique="who-may-write + sanitiser-before-store dataflow + stale-receiver rule + shape conformance of clamp helpers")
CLAIMED["C19"] = dict(
  text="Decides the lock-set / publication-order discipline of lazy first use: both self-initialising classes run _lazy_init under a threading lock, re-check "
       "the pending state inside it, keep a guard read by __getattribute__ blocking until initialisation is complete, and are entered through the defining "
       "class; table loaders' readers test the global assigned last; backend state is published after the loader installed the implementation, dry runs "
       "install nothing; class-/module-level state is written only by the audited initialisation functions; registry registration of the identical object is "
       "idempotent. One recorded finding (F17, _stub_requires_backend raising on a concurrently finished set_backend) is listed in known_findings.json. "
       "Not decided: interleavings outside these constructs.",
  note=STATIC_NOTE,
  technique="lock-set + publish-last ordering over linearised initialiser bodies + who-may-write whitelist")

CLAIMED["C04"] = dict(
  text="Decides the decision structure the context documents: identify_record returns the first record of the category's list (built in configured scheme "
       "order) whose identify() accepts; needs_update() and verify_and_update() use the same predicate `deprecated or scheme.needs_update`; the three result "
       "shapes and the rehash with the same category and context keywords; new hashes from the category's record; option overlay order with filtering that "
       "keeps every declared setting; deprecated='auto' / default-scheme resolution; clip and flag use the same window with strict comparisons; a cost "
       "generator that raises the clipped default re-checks the maximum afterwards; per-category options are exported by key presence; the libpass context "
       "facts. Not decided: behaviour over the combinatorial configuration space as executed.",
  note=STATIC_NOTE, technique="shape conformance of the policy functions against documented policy facts + sibling-predicate agreement")
CLAIMED["C10"] = dict(
  text="Decides that CryptContext.load() has a single commit point: no store to self and no self-mutating call before `config = _CryptConfig(source)`; after it "
       "only non-raising rebinding statements, and every piece of live state (_config, _get_record, _identify_record, dummy-hash cache, the strip-kwds "
       "override on both branches) is refreshed unconditionally; only load() writes that state and all other entry points go through it; update() overlays "
       "onto a fresh dict built with resolved handler objects; list values are copied on export and options are exported by key presence; records are "
       "fresh subclasses; key render/parse are inverse on their three shapes and floats are rendered losslessly. Not decided: equality of decisions after a "
       "round trip as executed.",
  note=STATIC_NOTE, technique="effect ordering around a commit point (syntax-directed), who-may-write, codec-pair agreement")
CLAIMED["C13"] = dict(
  text="Decides that TOTP._generate and the time arithmetic have the RFC 4226/6238 shape (>Q counter, low-nibble offset, 4 bytes >I masked 0x7FFFFFFF, zero-padded "
       "decimal last `digits` digits, counter = time // period, validity interval, digits 6..10), date-times go through utctimetuple, key text is cleaned before "
       "both the hex and base32 branches and typo-corrected for bytes and text alike, and compile_hmac prepares keys per RFC 2104 (hash iff longer than the "
       "block, decided from the path condition; hashed keys padded; ipad/opad tables and roles). Not decided: hashlib's digests, datetime internals.",
  note=STATIC_NOTE, technique="normalised-expression conformance against RFC kernels + path-condition analysis of the HMAC key preparation")
CLAIMED["C14"] = dict(
  text="Decides the decision table of TOTP.match/_find_match through its comparisons: start = max(last_counter, floor((t+skew-window)/period)) clamped at 0, end = "
       "floor((t+skew+window)/period)+1 exclusive, ascending scan returning the first constant-time hit with no `expected` shortcut, `last_counter is None` "
       "(not falsiness) for no history, equality with last_counter -> UsedTokenError, empty range / no hit -> InvalidTokenError, malformed token refused before "
       "any comparison. Not decided: multi-step histories as executed.",
  note=STATIC_NOTE, technique="shape conformance of window arithmetic and scan loop + falsy-zero lint")
CLAIMED["C15"] = dict(
  text="Decides writer/reader table agreement for TOTP serialisation: every key to_dict() writes is consumed by name, each optional field has its own "
       "independent guard, URI parameters written are the ones read, query values are stored as parse_qsl decoded them (single unquote), the path label takes "
       "part in duplicate detection, conflicting/missing/unknown items raise ValueError, the encrypted-key record keys and argument roles agree between "
       "encrypt_key and decrypt_key. Default elision vs. rebindable class defaults is reported as recorded finding F12 (6 sites, known_findings.json). "
       "Not decided: urllib's quoting of arbitrary text, AES.",
  note=STATIC_NOTE, technique="writer/reader key-table agreement + elision-constant vs. reader-default rule")
CLAIMED["C16"] = dict(
  text="Decides for passlib.apache (not executed by the suite): who-may-write table for _records/_source; the append guard of _set_record consults _source "
       "(coherence with delete); user/realm reach the table only through the encoders, which reject ':' NL CR TAB NUL and >255 encoded bytes; every mutation in a "
       "public mutator is followed by _autosave(); save/load maintain _mtime; record parse/render agree on field count and order; loader keeps comments, first "
       "duplicate wins, state installed only after the whole input parsed; htdigest positional shims and realm filters. Not decided: operation histories as executed.",
  note=STATIC_NOTE, technique="who-may-write + must-follow (autosave) + parse/render table agreement")
CLAIMED["C17"] = dict(
  text="Decides exhaustively over host capabilities: every registry name loads an object carrying that name (76) and passlib/hash.py lists the same set; for each "
       "exported preset (apps, hosts incl. host_context over all 128 crypt() subsets, htpasswd_context over the same 128, the Django default) the identify() "
       "language (DFA extracted from source: ident / ident_values / regex / parse-to-identify / custom bodies / prefix wrappers) of an earlier scheme is disjoint "
       "from that of every later non-catch-all scheme on printable non-space ASCII; preset defaults/deprecated lists are consistent. Not decided: that each "
       "scheme's generated hashes lie inside its identify language.",
  note=STATIC_NOTE + " Representative alphabet: printable ASCII, NL, TAB, NUL and one non-ASCII stand-in.",
  technique="regex->DFA language extraction, product emptiness, constant propagation of preset builders over all host subsets")
CLAIMED["C18"] = dict(
  text="Decides: every return of verify() in every DisabledHash subclass is literal False and is_disabled is claimed only there; verify/verify_and_update with "
       "hash None call dummy_verify() without arguments and return constants; dummy_verify answers False; the dummy-hash cache is dropped unconditionally after "
       "each policy replacement; enable() returns enabled hashes unchanged; unix_disabled disable/enable/identify/using marker algebra. Not decided: disable/enable "
       "histories as executed.",
  note=STATIC_NOTE, technique="literal-return discipline + shape conformance of the marker algebra")

CLAIMED["C02"] = dict(
  text="Decides table and recipe agreement with the published algorithms: the round-order / transposition / offset tables of md5-crypt, sha-crypt (both copies), "
       "sha1-crypt, sun-md5 and cisco type 7 equal tables generated inside the checker from the specifications; magic constants and fixed parameters of every format; "
       "passlib's _raw_sha2_crypt (never executed by the pinned suite) and libpass' _sha_crypt are statement-for-statement the same algorithm after renaming and "
       "temp inlining (sibling unifier) and both have the specification's step shape; for each format the recipe -- which values go in which order into which "
       "primitive, iteration counts, key lengths -- matches the specification; HMAC key preparation per RFC 2104. Not decided: control logic with neither sibling "
       "nor table (sun-md5 coin flips), the digests themselves (runtime values).",
  note=STATIC_NOTE, technique="table validation against references generated from the standards + sibling unification + recipe shape conformance")
CLAIMED["C07"] = dict(
  text="Decides structural necessary conditions of parse/render round-tripping for all 34 parser/renderer pairs of passlib.handlers and the libpass record classes: "
       "all rendering paths of every to_string()/as_str() are enumerated (forking at if/else and conditional expressions) into literal/field skeletons; each "
       "fits the skeleton of the regex the parser matches, and the attribute rendered at a group's position is the one the parser fills from that group; every "
       "setting the parser reports is consulted on every rendering path and a field is omitted only under a condition the parser inverts (sha-crypt 5000+flag, "
       "dlitz 400, argon2 v=16, sun-md5 '$md5$'=0 and bare-salt layouts, libpass rounds None); modular-crypt helper arguments agree; encoders are the inverses of "
       "the decoders; numeric formats agree; regex repeat counts and slice offsets equal declared sizes / tested prefix lengths; concatenation order equals slice "
       "order. Not decided: equality on every generated string (a round trip over runtime values).",
  note=STATIC_NOTE, technique="path enumeration of renderers into token skeletons matched against the parser's regex tree; def-use from regex groups to constructor keywords; "
            "size/offset agreement folded from class constants")
CLAIMED["C11"] = dict(
  text="Decides that every constant table of the built-in primitives equals a reference generated in the checker from the standard (Blowfish P/S = hex digits of pi "
       "computed by Machin's formula, DES SPE tables = bit placement of the FIPS 46-3 S-boxes, MD4 round tables/constants/IV per RFC 1320, Salsa20/8 schedule), and "
       "that the straight-line round code has the operand / rotation / index sequence the standard prescribes; DES key/salt bit-routing helpers are the stated "
       "permutations (bit-provenance domain); MD4 copy()/digest()/padding bookkeeping; scrypt size arithmetic and validate(); HMAC / PBKDF1 / PBKDF2 shapes; SASLprep "
       "stage order. Not decided: loop control of the ciphers beyond these shapes (would need execution).",
  note=STATIC_NOTE, technique="table validation against generated references + normalised round-shape conformance + bit-provenance routing of the DES helpers")
CLAIMED["C12"] = dict(
  category="proof",
  text="Per-group clauses at proof level: for each of the six 3-byte/4-symbol group coders (passlib big/little encode+decode, two libpass copies) the bit routing "
       "extracted by a bit-provenance abstract interpretation of the straight-line group code is a permutation of the input bits onto 6-bit symbols with zero padding, "
       "decode after encode is the identity routing, and it equals the layout generated from the definition of base64 / crypt's little-endian groups -- for every "
       "input of a group, since the domain tracks each bit symbolically. Also decided: padding-repair masks clear exactly the ignored bits; integer codecs' range "
       "guards and shift ladders; alphabets; unpadded/dot base64 helpers on every input type; base32 typo map; error mapping; libpass copies. Not decided: chunk/tail "
       "loop bookkeeping beyond its shape.",
  note=STATIC_NOTE + " Proof is of the group routing only (abstract domain sound for & | ^ << >> + on disjoint bit sets); the rest is rule conformance.",
  technique="bit-provenance abstract interpretation (symbolic per-bit routing) compared with generated reference layouts")
CLAIMED["C20"] = dict(
  text="Decides the shared-format conditions of libpass/passlib interoperability: each libpass hasher renders through the record class its own verify/identify/"
       "needs_update parse with; every string shape passlib renders for the six shared formats fits the libpass record regex and both renderers produce the same "
       "literal skeletons; bcrypt-sha256 PHC parameter names/order equal passlib's v2 template; required literal prefixes of the libpass formats are pairwise "
       "incompatible (identify exactness); _sha_crypt is statement-for-statement _raw_sha2_crypt, tables and hash64 engines are equal; hash() and verify() feed the "
       "primitive through the same slots, implicit rounds 5000, pbkdf2 digest/size, whole-digest constant-time comparison; bcrypt-sha256 pre-hash roles on both "
       "sides; identify/verify/needs_update of a hasher read the string through one record parser, needs_update = other format or other cost; every parsed record "
       "field is consumed or pinned; digit groups converted with int() are length-bounded (identify stays total); the cost validator accepts exactly passlib's window; "
       "the libpass context facts; helper copies. Not decided: digest equality as executed.",
  note=STATIC_NOTE, technique="cross-API skeleton/regex agreement + sibling unification + slot/role agreement rules")

NOT_APPLICABLE = {p: "check under construction in this session (will be claimed once its rules are built and validated on the clean tree)"
                  for p in ["C%02d" % i for i in range(1, 21)] if p not in CLAIMED}
NOTES = ("All checks are static: ./check <ID> parses /repo's working tree on every run (81 units), evaluates the property's rules at every site and "
         "writes /verif/evidence/<ID>.json. exit 0 = all obligations hold (KNOWN-FINDING lines allowed), 1 = VIOLATION line(s), 2 = ANALYSIS-ERROR "
         "(anchor vanished / idiom not recognised). known_findings.json lists recorded and fixed defects. Before the rules run, every function of the "
         "current tree that is provably equivalent (equal normal forms: def-use webs, helper inlining, control-flow and expression spelling; pv/equiv.py) to "
         "its counterpart in the committed reference tree (anchors/tree) is analysed in the reference shape, so behaviour-preserving refactorings do not "
         "disturb shape facts; anything not proven equivalent is analysed as it stands.")
